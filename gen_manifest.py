#!/usr/bin/env python3
"""Regenerates MANIFEST.json (kept in one place so the 17 entries stay consistent)."""
import json, sys
notes = {
 "C01": ("explicit-state BFS to fixpoint over the real execute entry point; per-transition conservation (global and per order) = inductive proof of the ledger invariant over the scenario alphabets", "6/C01"),
 "C02": ("every accepted match in every reachable book: net change per (account, denomination) and remaining amounts compared with an exact-rational reference", "6/C02"),
 "C03": ("match request product (ids x price spellings x sizes x senders) from every reachable state: accepted => eligible, eligible+payable => carried out and deliverable", "6/C03"),
 "C04": ("every cancel / expire / reject with every partial size from every reachable state: payouts, remainders, removal, lot rule", "6/C04"),
 "C05": ("every guarded request shape x every account as sender from every reachable state, including after role-list changes: accepted => role held", "6/C05"),
 "C06": ("owner cancel and executor expire attempted on a copy of every reachable state for every open order (incl. legacy-id seeds): must succeed, be deliverable, return the whole escrow", "6/C06"),
 "C07": ("create-ask / create-bid requests within k deviations of a valid baseline from every reachable state under precision/fee/marker/attribute configurations: accepted <=> reference admission predicate", "6/C07"),
 "C08": ("approve request product from every reachable state + state invariant (approver amount = remaining size) blamed on the breaking transition", "6/C08"),
 "C09": ("fee-focused closures (ties, zero, whole): creation fee and ask fee exact, held-fee pro-rata state invariant, closing bids release their whole fee", "6/C09"),
 "C10": ("closures under all 27 assignments of {restricted, unrestricted marker, no marker} to base / convertible / quote (plus restricted markers that list required attributes, several quote and convertible denominations, base listed as quote): every emitted message checked against the marker table served", "6/C10"),
 "C11": ("complete storage diff around every accepted transition + per-order immutability + book consistency invariants", "6/C11"),
 "C12": ("modify-contract request product (<= k field groups) from every state of a small book whose configuration itself varies", "6/C12"),
 "C13": ("exhaustive enumeration of instantiate messages (precision 0..19 x increments x field shapes) + integrality closures per accepted (precision, increment)", "6/C13"),
 "C14": ("every state of a closure and its old-format twins x stored versions x migrate messages, applied twice: gate, full-store diff, idempotence; plus books crowded with up to 257 (thorough 1001) old-format bids", "6/C14"),
 "C15": ("differential: migrate(old-format twin) vs migrate(native) on every reachable book with event-log history, plus all event logs up to a length bound, plus books crowded with up to 257 (thorough 1001) old-format bids", "6/C15"),
 "C16": ("query x id-spelling product on every reachable state: store unchanged, answer = raw entry, = cancel payout", "6/C16"),
 "C17": ("attributes of every accepted response compared with flows and book; attribute-driven shadow book stepped and compared at every transition", "6/C17"),
}
built = sys.argv[1].split(",") if len(sys.argv) > 1 else sorted(notes)
checks = []
for p in sorted(notes):
    if p not in built: continue
    checks.append({
        "property_id": p,
        "quick_cmd": f"./check {p} quick",
        "thorough_cmd": f"./check {p} thorough",
        "evidence_file": f"/verif/evidence/{p}.json",
        "replay_cmd_template": "./check replay {path}",
        "engine": "atsmc",
        "level_claimed": {"category": "model_checking", "text": notes[p][0] + ". Exhaustive within the stated alphabets (DESIGN.md section 5 and 9); the real entry points are executed on every transition, so there is no model-to-code gap.", "design_ref": "DESIGN.md section " + notes[p][1]},
        "level_note": "trusted base: the harness's Storage/Querier/MockApi environment, the native (not wasm) build with overflow checks, the exact-rational reference model; bounds: <= 2 asks and <= 2 bids open at once in the quick tier (three on one side in thorough books and in books carried over from an older version; migration books up to 1001 bids), values from the scenario alphabets and the value sweep (amounts up to 2^94, rates and prices up to 28 decimal places), marker/attribute tables constant during a history",
        "technique": "explicit-state model checking of the real contract entry points (parallel BFS to fixpoint, exact state de-duplication, lock-step reference oracle)",
    })
na = [{"property_id": p, "reason": "check not built yet (in progress); the technique applies, see DESIGN.md section " + notes[p][1]} for p in sorted(notes) if p not in built]
m = {
 "version": 1,
 "setup_cmd": "./check build",
 "hooks": {"guard": "atsmc_verif", "enable": "none needed: the harness links /repo as an rlib and calls the public entry points; no cfg-guarded code exists in /repo", "baseline_off_cmd": "cd /repo && cargo test --workspace --no-fail-fast --offline", "source_commits": [], "add_only": True},
 "engines": [{"name": "atsmc", "path": "/verif/harness", "serves_properties": built, "kind_free_text": "explicit-state model checker over the real contract (Rust; level-synchronous parallel BFS, exact keys, lock-step reference model), stateright 0.31 as engine cross-check in ./check selftest"}],
 "checks": checks,
 "not_applicable": na,
 "notes": "All checks: exit 0 = held on everything explored (KNOWN-FINDING lines allowed), exit 1 + VIOLATION line = unlisted violation, exit 2 = machinery failure (never a verdict). Evidence is rewritten on every run. See DESIGN.md.",
}
json.dump(m, open("/verif/MANIFEST.json", "w"), indent=1)
print("checks", len(checks), "not_applicable", len(na))
