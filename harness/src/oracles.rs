//! Oracles for the transition-level and state-level properties (DESIGN §6).
//! Each clause is tagged with the property it encodes; clauses issue a verdict only where
//! the property statement does (see DESIGN §4 "no verdict").

use crate::chain::{Accepted, FlowKind, Outcome, Store, CONTRACT};
use crate::refmodel::*;
use crate::scenario::{Act, Cfg, Modify, Req};
use std::collections::{BTreeMap, BTreeSet};

#[derive(Clone, Debug)]
pub struct Violation {
    pub prop: &'static str,
    pub sig: String,
    pub detail: String,
}

#[derive(Default)]
pub struct Sink {
    pub viols: Vec<Violation>,
    pub cov: BTreeMap<String, u64>,
    pub extra_execs: u64,
    /// final replay ops of violations raised by state hooks (parallel to the hook's violations)
    pub pending_last: Vec<Vec<serde_json::Value>>,
}

impl Sink {
    pub fn v(&mut self, prop: &'static str, sig: String, detail: String) {
        self.viols.push(Violation { prop, sig, detail });
    }
    /// violation raised by a state hook, with the op(s) that follow the path to the state
    pub fn vl(&mut self, prop: &'static str, sig: String, detail: String, last: Vec<serde_json::Value>) {
        self.viols.push(Violation { prop, sig, detail });
        self.pending_last.push(last);
    }
    pub fn c(&mut self, key: &str) {
        *self.cov.entry(key.to_string()).or_insert(0) += 1;
    }
    pub fn cs(&mut self, key: String) {
        *self.cov.entry(key).or_insert(0) += 1;
    }
}

pub struct StateCtx<'a> {
    pub cfg: &'a Cfg,
    pub store: &'a Store,
    pub book: Book,
    pub owed: BTreeMap<String, i128>,
    /// state-invariant clauses already violated in this state: (clause, order key)
    pub inv: BTreeSet<(String, String)>,
}

impl<'a> StateCtx<'a> {
    pub fn new(cfg: &'a Cfg, store: &'a Store) -> StateCtx<'a> {
        let book = decode_book(store);
        let owed = owed(&book);
        let mut scratch = Sink::default();
        let inv = state_invariants(&book, &mut scratch).into_iter().map(|x| (x.1, x.2)).collect();
        StateCtx { cfg, store, book, owed, inv }
    }
}

pub struct TransCtx<'a> {
    pub st: &'a StateCtx<'a>,
    pub act: &'a Act,
    pub out: &'a Outcome,
    pub post: Option<Book>,
    /// net change per (account, denomination) implied by the response
    pub net: BTreeMap<(String, String), i128>,
}

pub type Net = BTreeMap<(String, String), i128>;

pub fn net_of(a: &Accepted) -> Net {
    let mut m: Net = BTreeMap::new();
    for f in &a.flows {
        *m.entry((f.from.clone(), f.denom.clone())).or_insert(0) -= f.amount as i128;
        *m.entry((f.to.clone(), f.denom.clone())).or_insert(0) += f.amount as i128;
    }
    m.retain(|_, v| *v != 0);
    m
}

fn add(m: &mut Net, acct: &str, denom: &str, amt: i128) {
    *m.entry((acct.to_string(), denom.to_string())).or_insert(0) += amt;
}
fn clean(mut m: Net) -> Net {
    m.retain(|_, v| *v != 0);
    m
}

impl<'a> TransCtx<'a> {
    pub fn new(st: &'a StateCtx<'a>, act: &'a Act, out: &'a Outcome) -> TransCtx<'a> {
        let (post, net) = match out {
            Outcome::Accepted(a) => (Some(decode_book(&a.store)), net_of(a)),
            _ => (None, BTreeMap::new()),
        };
        TransCtx { st, act, out, post, net }
    }
    fn acc(&self) -> Option<&Accepted> {
        self.out.accepted()
    }
    fn info(&self) -> Option<&JInfo> {
        self.st.book.info.as_ref()
    }
}

fn denom_role(cfg: &Cfg, d: &str) -> &'static str {
    if d == cfg.base {
        "base"
    } else if cfg.convs.iter().any(|c| c == d) {
        "conv"
    } else if cfg.quotes.iter().any(|c| c == d) {
        "quote"
    } else {
        "other"
    }
}

fn ask_class_name(c: &AskClass) -> &'static str {
    match c {
        AskClass::Basic => "plain",
        AskClass::Pending => "pending",
        AskClass::Ready { .. } => "ready",
    }
}

// =============================================================================================
// entry points

pub fn on_trans(tc: &TransCtx, sink: &mut Sink) {
    let kind = tc.act.req.kind();
    match tc.out {
        Outcome::Accepted(a) => {
            sink.cs(format!("accepted/{kind}"));
            let post = tc.post.as_ref().unwrap();
            c10_messages(tc, a, sink);
            c01_conservation(tc, a, post, sink);
            c11_frame(tc, post, sink);
            for (prop, clause, key, detail) in state_invariants(post, sink) {
                // inductive form: blame the transition that broke the clause
                if !tc.st.inv.contains(&(clause.clone(), key.clone())) {
                    sink.v(prop, format!("{clause}/broken-by-{kind}"), detail);
                }
            }
            c17_attributes(tc, a, post, sink);
            c05_authorization(tc, sink);
        }
        Outcome::Refused(e) => {
            sink.cs(format!("refused/{kind}"));
            c13_integrality(tc, e, sink);
        }
        Outcome::Aborted => sink.cs(format!("aborted/{kind}")),
    }
    match &tc.act.req {
        Req::Match { .. } => c02_c03_match(tc, sink),
        Req::CancelAsk { .. }
        | Req::CancelBid { .. }
        | Req::ExpireAsk { .. }
        | Req::ExpireBid { .. }
        | Req::RejectAsk { .. }
        | Req::RejectBid { .. } => c04_reversal(tc, sink),
        Req::CreateAsk { .. } | Req::CreateBid { .. } => c07_admission(tc, sink),
        Req::ApproveAsk { .. } => c08_approve(tc, sink),
        Req::Modify(m) => c12_modify(tc, m, sink),
        Req::Migrate(msg) => {
            if tc.out.is_accepted() {
                sink.c("migrate/accepted-as-a-step-of-a-history");
                // C05: the approver list is the configured one: an accepted upgrade that names a list installs exactly that list
                if let (Some(list), Some(post)) = (msg.get("approvers").and_then(|v| v.as_array()), tc.post.as_ref().and_then(|b| b.info.as_ref())) {
                    let want: Vec<String> = list.iter().filter_map(|v| v.as_str().map(|s| s.to_string())).collect();
                    sink.c("C05/migrate/approver-list-named");
                    if want != post.approvers {
                        sink.v("C05", "C05/migrate/approver-list-not-as-configured".into(), format!("accepted upgrade names {want:?}, stored {:?}", post.approvers));
                    }
                }
            }
        }
    }
}

/// A book carried over from an earlier version: every old-format seed must have become exactly the
/// current-format bid the reference fold over its event log gives (C15), so that its owner can
/// still be made whole (C06).
pub fn check_carried_over(seed: &[(Vec<u8>, Vec<u8>)], st: &StateCtx, sink: &mut Sink) {
    for (k, v) in seed {
        let id = match k.strip_prefix(BID_PREFIX) {
            Some(i) => lossy(i),
            None => continue,
        };
        let old: serde_json::Value = match serde_json::from_slice(v) {
            Ok(x) => x,
            Err(_) => continue,
        };
        let events = match old.get("events").and_then(|e| e.as_array()) {
            Some(e) => e,
            None => continue,
        };
        let (sb, sq, sf) = crate::mig::fold_log(events);
        sink.c("C15/carried-over-bids-compared-with-reference-conversion");
        let num = |x: &serde_json::Value| x.get("amount").and_then(|a| a.as_str()).and_then(|s| s.parse::<u128>().ok()).unwrap_or(0);
        let sv = |f: &str| old.get(f).and_then(|x| x.as_str()).unwrap_or("").to_string();
        let exp = RefBid {
            key: id.clone(),
            id: sv("id"),
            owner: sv("owner"),
            base_denom: old["base"]["denom"].as_str().unwrap_or("").to_string(),
            size: num(&old["base"]),
            price: sv("price"),
            quote_denom: old["quote"]["denom"].as_str().unwrap_or("").to_string(),
            quote: num(&old["quote"]),
            fee: if old["fee"].is_null() { None } else { Some((old["fee"]["denom"].as_str().unwrap_or("").to_string(), num(&old["fee"]))) },
            acc_base: sb,
            acc_quote: sq,
            acc_fee: sf,
        };
        match st.book.bids.get(&id) {
            Some(got) if *got == exp => {}
            got => {
                sink.v("C15", "C15/carried-over-bid-differs-from-reference-conversion".into(), format!("expected {exp:?}, on the book {got:?}"));
                // C11: an upgrade names no order: every recorded order keeps its terms and its remaining amounts across it
                sink.v("C11", "C11/carried-over-bid-changed-or-lost-by-the-upgrade".into(), format!("recorded before the upgrade {exp:?}, on the book after it {got:?}"));
                let same_rem = got.map_or(false, |g| (g.rem_base(), g.rem_quote(), g.rem_fee()) == (exp.rem_base(), exp.rem_quote(), exp.rem_fee()) && g.owner == exp.owner);
                if !same_rem {
                    let d = format!("escrow still held for it {:?}, recorded {:?}", (exp.rem_base(), exp.rem_quote(), exp.rem_fee()), got.map(|g| (g.rem_base(), g.rem_quote(), g.rem_fee())));
                    sink.v("C06", "C06/carried-over-bid-records-other-remaining-amounts-than-were-escrowed".into(), d.clone());
                    // ... and any cancel / expire / reject will return amounts other than what is escrowed for it
                    sink.v("C04", "C04/carried-over-bid-records-other-remaining-amounts-than-were-escrowed".into(), d);
                }
            }
        }
    }
}

/// C13 consequence: an admissible price times a lot-multiple size is never refused as fractional
fn c13_integrality(tc: &TransCtx, err: &str, sink: &mut Sink) {
    if !err.contains("must be an integer") {
        return;
    }
    let info = match tc.info() {
        Some(i) => i,
        None => return,
    };
    let inc = info.increment();
    if inc == 0 {
        return;
    }
    let ok_price = |p: &str| parse_dec(p).map_or(false, |x| x.is_pos() && within_precision(x, info.precision()));
    let (size, price): (Option<u128>, Option<&str>) = match &tc.act.req {
        Req::CreateAsk { size, price, .. } | Req::CreateBid { size, price, .. } => (Some(*size), Some(price)),
        Req::Match { size, price, .. } => (Some(*size), Some(price)),
        Req::RejectAsk { size, .. } | Req::RejectBid { size, .. } => (*size, None),
        _ => (None, None),
    };
    let lot = size.map_or(true, |s| s % inc == 0);
    let adm = price.map_or(true, ok_price);
    sink.c("C13/non-integer-total-refusals-seen");
    if lot && adm {
        sink.v(
            "C13",
            format!("C13/integrality/fractional-total-for-admissible-price-and-lot-size/{}", tc.act.req.kind()),
            format!("{err}; precision {} increment {inc}", info.precision()),
        );
    }
}

/// invariants of the initial state of an exploration
pub fn on_initial(st: &StateCtx, sink: &mut Sink) {
    for (prop, clause, _key, detail) in state_invariants(&st.book, sink) {
        sink.v(prop, format!("{clause}/in-initial-state"), detail);
    }
}

// =============================================================================================
// C10 transfer mechanism

fn c10_messages(tc: &TransCtx, a: &Accepted, sink: &mut Sink) {
    let cfg = tc.st.cfg;
    let kind = tc.act.req.kind();
    for b in &a.bad_msgs {
        sink.v("C10", format!("C10/{kind}/bad-message"), b.clone());
    }
    if a.bank_coin_counts.iter().any(|n| *n != 1) {
        sink.v(
            "C10",
            format!("C10/{kind}/bank-send-not-exactly-one-coin"),
            format!("coins per bank message: {:?}", a.bank_coin_counts),
        );
    }
    for f in &a.flows {
        let role = denom_role(cfg, &f.denom);
        match &f.kind {
            FlowKind::Attached => {}
            FlowKind::Bank => {
                sink.cs(format!("C10/bank/{role}/{:?}", cfg.chain.marker(&f.denom)));
                if cfg.restricted(&f.denom) {
                    sink.v(
                        "C10",
                        format!("C10/{kind}/bank-send-of-restricted/{role}"),
                        format!("{f:?}"),
                    );
                }
                if f.amount == 0 {
                    sink.v("C10", format!("C10/{kind}/zero-bank-send/{role}"), format!("{f:?}"));
                }
            }
            FlowKind::MarkerTransfer { administrator } => {
                sink.cs(format!("C10/transfer/{role}/{:?}", cfg.chain.marker(&f.denom)));
                if !cfg.restricted(&f.denom) {
                    sink.v(
                        "C10",
                        format!("C10/{kind}/marker-transfer-of-unrestricted/{role}"),
                        format!("{f:?}"),
                    );
                }
                if f.amount == 0 {
                    sink.v("C10", format!("C10/{kind}/zero-transfer/{role}"), format!("{f:?}"));
                }
                if administrator != CONTRACT {
                    sink.v("C10", format!("C10/{kind}/administrator-not-contract"), format!("{f:?}"));
                }
                let payout = f.from == CONTRACT;
                let pull = f.from == tc.act.sender && f.to == CONTRACT;
                if !(payout || pull) {
                    sink.v("C10", format!("C10/{kind}/transfer-parties"), format!("{f:?}"));
                }
                if pull && !payout {
                    sink.c("C10/pull-in");
                }
            }
        }
    }
}

// =============================================================================================
// C01 escrow solvency (inductive step)

fn named_orders(req: &Req) -> (Option<&str>, Option<&str>) {
    match req {
        Req::CreateAsk { id, .. }
        | Req::ApproveAsk { id, .. }
        | Req::CancelAsk { id }
        | Req::ExpireAsk { id }
        | Req::RejectAsk { id, .. } => (Some(id), None),
        Req::CreateBid { id, .. }
        | Req::CancelBid { id }
        | Req::ExpireBid { id }
        | Req::RejectBid { id, .. } => (None, Some(id)),
        Req::Match { ask_id, bid_id, .. } => (Some(ask_id), Some(bid_id)),
        Req::Modify(_) | Req::Migrate(_) => (None, None),
    }
}

fn contract_net_in(net: &Net) -> BTreeMap<String, i128> {
    let mut m = BTreeMap::new();
    for ((acct, d), v) in net {
        if acct == CONTRACT {
            *m.entry(d.clone()).or_insert(0) += *v;
        }
    }
    m.retain(|_, v| *v != 0);
    m
}

fn diff(post: &BTreeMap<String, i128>, pre: &BTreeMap<String, i128>) -> BTreeMap<String, i128> {
    let mut m = post.clone();
    for (k, v) in pre {
        *m.entry(k.clone()).or_insert(0) -= *v;
    }
    m.retain(|_, v| *v != 0);
    m
}

fn c01_conservation(tc: &TransCtx, _a: &Accepted, post: &Book, sink: &mut Sink) {
    let cfg = tc.st.cfg;
    let kind = tc.act.req.kind();
    let netin = contract_net_in(&tc.net);
    let d_owed = diff(&owed(post), &tc.st.owed);
    sink.c("C01/transitions-checked");
    if netin != d_owed {
        let mut denoms: BTreeSet<&String> = netin.keys().collect();
        denoms.extend(d_owed.keys());
        for d in denoms {
            let i = *netin.get(d).unwrap_or(&0);
            let o = *d_owed.get(d).unwrap_or(&0);
            if i != o {
                let dir = if i < o { "overpaid-or-underfunded" } else { "stranded-or-overcharged" };
                sink.v(
                    "C01",
                    format!("C01/global/{kind}/{}/{dir}", denom_role(cfg, d)),
                    format!("denom {d}: net flow into contract {i}, change of what open orders are owed {o}; flows {:?}", tc.acc().unwrap().flows),
                );
            }
        }
    }
    // order by order
    let (aid, bid) = named_orders(&tc.act.req);
    let pa = aid.and_then(|i| tc.st.book.asks.get(i));
    let qa = aid.and_then(|i| post.asks.get(i));
    let pb = bid.and_then(|i| tc.st.book.bids.get(i));
    let qb = bid.and_then(|i| post.bids.get(i));
    let da = diff(&owed_ask(qa), &owed_ask(pa));
    let db = diff(&owed_bid(qb), &owed_bid(pb));
    match (aid, bid) {
        (Some(_), None) => {
            if netin != da {
                sink.v(
                    "C01",
                    format!("C01/per-order/{kind}/ask"),
                    format!("flows on behalf of the ask {netin:?} vs change of its recorded amounts {da:?}"),
                );
            }
        }
        (None, Some(_)) => {
            if netin != db {
                sink.v(
                    "C01",
                    format!("C01/per-order/{kind}/bid"),
                    format!("flows on behalf of the bid {netin:?} vs change of its recorded amounts {db:?}"),
                );
            }
        }
        (Some(_), Some(_)) => {
            // match: base-side denominations belong to the ask, quote-side to the bid
            let mut ask_d: BTreeSet<String> = BTreeSet::new();
            if let Some(a) = pa {
                ask_d.insert(a.base.clone());
                if let AskClass::Ready { denom, .. } = &a.class {
                    ask_d.insert(denom.clone());
                }
            }
            let mut bid_d: BTreeSet<String> = BTreeSet::new();
            if let Some(b) = pb {
                bid_d.insert(b.quote_denom.clone());
                if let Some((d, _)) = &b.fee {
                    bid_d.insert(d.clone());
                }
            }
            if ask_d.is_disjoint(&bid_d) {
                let part = |ds: &BTreeSet<String>| -> BTreeMap<String, i128> {
                    netin.iter().filter(|(d, _)| ds.contains(*d)).map(|(d, v)| (d.clone(), *v)).collect()
                };
                if part(&ask_d) != da {
                    sink.v(
                        "C01",
                        format!("C01/per-order/{kind}/ask/{}", pa.map_or("none", |a| ask_class_name(&a.class))),
                        format!("flows on behalf of the ask {:?} vs change of its recorded amounts {da:?}", part(&ask_d)),
                    );
                }
                if part(&bid_d) != db {
                    sink.v(
                        "C01",
                        format!("C01/per-order/{kind}/bid"),
                        format!("flows on behalf of the bid {:?} vs change of its recorded amounts {db:?}", part(&bid_d)),
                    );
                }
            }
        }
        (None, None) => {
            if !netin.is_empty() {
                sink.v("C01", format!("C01/per-order/{kind}/flows-without-order"), format!("{netin:?}"));
            }
        }
    }
}

// =============================================================================================
// C11 order integrity: frame + immutability

fn c11_frame(tc: &TransCtx, post: &Book, sink: &mut Sink) {
    let kind = tc.act.req.kind();
    let pre_s = &tc.st.store.0;
    let post_s = &tc.acc().unwrap().store.0;
    let (aid, bid) = named_orders(&tc.act.req);
    let named_a = aid.map(ask_key);
    let named_b = bid.map(bid_key);
    let is_migrate = matches!(tc.act.req, Req::Migrate(_));
    let is_modify = matches!(tc.act.req, Req::Modify(_)) || is_migrate;
    let mut keys: BTreeSet<&Vec<u8>> = pre_s.keys().collect();
    keys.extend(post_s.keys());
    for k in keys {
        if pre_s.get(k) == post_s.get(k) {
            continue;
        }
        if Some(k) == named_a.as_ref() || Some(k) == named_b.as_ref() {
            continue;
        }
        if k.as_slice() == KEY_INFO {
            if is_modify {
                continue;
            }
            sink.v("C11", format!("C11/frame/{kind}/configuration-changed"), format!("contract_info changed by a {kind} request"));
            continue;
        }
        let what = if k.starts_with(ASK_PREFIX) {
            "other-ask"
        } else if k.starts_with(BID_PREFIX) {
            "other-bid"
        } else if k.as_slice() == KEY_VERSION {
            if is_migrate {
                continue;
            }
            "version-record"
        } else {
            // a key outside the known namespaces: no property speaks about it
            sink.c("storage/keys-outside-the-known-namespaces-changed");
            continue;
        };
        sink.v(
            "C11",
            format!("C11/frame/{kind}/{what}"),
            format!("key {:?}: {:?} -> {:?}", lossy(k), pre_s.get(k).map(|v| lossy(v)), post_s.get(k).map(|v| lossy(v))),
        );
    }
    sink.c("C11/frames-compared");
    // immutable terms and shrinking remainders of the named orders
    if let Some(id) = aid {
        if let (Some(p), Some(q)) = (tc.st.book.asks.get(id), post.asks.get(id)) {
            if p.id != q.id || p.owner != q.owner || p.price != q.price || p.base != q.base || p.quote != q.quote {
                sink.v("C11", format!("C11/immutable/{kind}/ask-terms"), format!("{p:?} -> {q:?}"));
            }
            if q.size > p.size {
                sink.v("C11", format!("C11/remainder-grew/{kind}/ask"), format!("{p:?} -> {q:?}"));
            }
            let ok = match (&p.class, &q.class) {
                (AskClass::Basic, AskClass::Basic) => true,
                (AskClass::Pending, AskClass::Pending) => true,
                (AskClass::Pending, AskClass::Ready { .. }) => kind == "approve_ask",
                (
                    AskClass::Ready { approver: a1, denom: d1, amount: m1 },
                    AskClass::Ready { approver: a2, denom: d2, amount: m2 },
                ) => a1 == a2 && d1 == d2 && m2 <= m1,
                _ => false,
            };
            if !ok {
                sink.v("C11", format!("C11/class-change/{kind}"), format!("{:?} -> {:?}", p.class, q.class));
            }
        }
    }
    if let Some(id) = bid {
        if let (Some(p), Some(q)) = (tc.st.book.bids.get(id), post.bids.get(id)) {
            if p.id != q.id
                || p.owner != q.owner
                || p.price != q.price
                || p.base_denom != q.base_denom
                || p.quote_denom != q.quote_denom
                || p.size != q.size
                || p.quote != q.quote
                || p.fee != q.fee
            {
                sink.v("C11", format!("C11/immutable/{kind}/bid-terms"), format!("{p:?} -> {q:?}"));
            }
            if q.acc_base < p.acc_base || q.acc_quote < p.acc_quote || q.acc_fee < p.acc_fee {
                sink.v("C11", format!("C11/remainder-grew/{kind}/bid"), format!("{p:?} -> {q:?}"));
            }
        }
    }
    // C12 clause: market parameters cannot be changed by any execute request
    if let (Some(p), Some(q)) = (&tc.st.book.info, &post.info) {
        if !is_migrate
            && (p.name != q.name
            || p.bind_name != q.bind_name
            || p.base_denom != q.base_denom
            || p.convertible_base_denoms != q.convertible_base_denoms
            || p.supported_quote_denoms != q.supported_quote_denoms
            || p.price_precision != q.price_precision
            || p.size_increment != q.size_increment)
        {
            sink.v("C12", format!("C12/market-parameters-changed/{kind}"), format!("{p:?} -> {q:?}"));
        }
    } else {
        sink.v("C11", format!("C11/frame/{kind}/configuration-lost"), "contract_info missing or undecodable".into());
    }
}

/// Invariants every visible book satisfies (C11 consistency, C08 and C09 state clauses).
pub fn state_invariants(b: &Book, sink: &mut Sink) -> Vec<(&'static str, String, String, String)> {
    let mut out: Vec<(&'static str, String, String, String)> = vec![];
    for (k, e) in &b.undecodable {
        out.push(("C11", "C11/state/undecodable".into(), k.clone(), format!("{k}: {e}")));
    }
    // keys outside the four known namespaces are not mentioned by any property: counted, not judged
    for _k in &b.foreign_keys {
        sink.c("storage/keys-outside-the-known-namespaces");
    }
    let info = match &b.info {
        Some(i) => i,
        None => return out,
    };
    for a in b.asks.values() {
        sink.c("C11/ask-states-checked");
        let mut bad: Vec<String> = vec![];
        if a.id != a.key {
            bad.push("id-differs-from-key".into());
        }
        if a.size == 0 {
            bad.push("zero-remaining-size".into());
        }
        let plain = a.class == AskClass::Basic;
        if plain != (a.base == info.base_denom) {
            bad.push("plain-iff-contract-base".into());
        }
        if !plain && !info.convertible_base_denoms.contains(&a.base) {
            bad.push("untraded-base".into());
        }
        if !info.supported_quote_denoms.contains(&a.quote) {
            bad.push("untraded-quote".into());
        }
        match parse_dec(&a.price) {
            Some(p) if p.is_pos() && within_precision(p, info.precision()) => {}
            Some(_) => bad.push("invalid-price".into()),
            None => {
                if dec_is_clear(&a.price) {
                    bad.push("invalid-price".into())
                }
            }
        }
        for x in bad {
            out.push(("C11", format!("C11/state/ask/{x}"), format!("ask/{}", a.key), format!("{a:?}")));
        }
        // C08: approver-supplied amount tracks the ask
        if let AskClass::Ready { denom, amount, .. } = &a.class {
            sink.c("C08/ready-states-checked");
            if *amount != a.size {
                out.push(("C08", "C08/state/approver-amount-differs-from-size".into(), format!("ask/{}", a.key), format!("{a:?}")));
            }
            if denom != &info.base_denom {
                out.push(("C08", "C08/state/approver-denom-not-contract-base".into(), format!("ask/{}", a.key), format!("{a:?}")));
            }
        }
    }
    for x in b.bids.values() {
        sink.c("C11/bid-states-checked");
        let mut bad: Vec<String> = vec![];
        if x.id != x.key {
            bad.push("id-differs-from-key".into());
        }
        let (rb, rq, rf) = match (x.rem_base(), x.rem_quote(), x.rem_fee()) {
            (Some(a), Some(b), Some(c)) => (a, b, c),
            _ => {
                out.push(("C11", "C11/state/bid/accumulated-exceeds-original".into(), format!("bid/{}", x.key), format!("{x:?}")));
                continue;
            }
        };
        if rb == 0 {
            bad.push("zero-remaining-size".into());
        }
        if x.base_denom != info.base_denom {
            bad.push("base-not-contract-base".into());
        }
        if !info.supported_quote_denoms.contains(&x.quote_denom) {
            bad.push("untraded-quote".into());
        }
        if let Some((d, _)) = &x.fee {
            if d != &x.quote_denom {
                bad.push("fee-denom-not-quote".into());
            }
        }
        match parse_dec(&x.price) {
            Some(p) if p.is_pos() && within_precision(p, info.precision()) => {
                // unspent quote = price * unfilled size
                match Rat::int(rb).and_then(|r| p.mul(r)) {
                    Some(t) => {
                        if t.to_u128() != Some(rq) {
                            bad.push("unspent-quote-not-price-times-unfilled".into());
                        }
                    }
                    None => {}
                }
            }
            Some(_) => bad.push("invalid-price".into()),
            None => {
                if dec_is_clear(&x.price) {
                    bad.push("invalid-price".into())
                }
            }
        }
        for y in bad {
            out.push(("C11", format!("C11/state/bid/{y}"), format!("bid/{}", x.key), format!("{x:?}")));
        }
        // C09: fee still held = original fee scaled by unspent fraction of quote, to the nearest unit
        if let Some((_, f)) = &x.fee {
            if x.quote > 0 {
                if let Some(ok) = pro_rata_nearest(*f, rq, x.quote) {
                    sink.c("C09/held-fee-states-checked");
                    if pro_rata_is_tie(*f, rq, x.quote) {
                        sink.c("C09/held-fee-exact-tie");
                    }
                    if !ok.contains(&rf) {
                        out.push((
                            "C09",
                            "C09/state/held-fee-not-pro-rata".into(),
                            format!("bid/{}", x.key),
                            format!("held fee {rf}, acceptable {ok:?} (fee {f} x unspent quote {rq} / quote {}): {x:?}", x.quote),
                        ));
                    }
                }
            }
        }
    }
    out
}

// =============================================================================================
// C05 authorization (accepted => role held in the pre-state)

fn c05_authorization(tc: &TransCtx, sink: &mut Sink) {
    let info = match tc.info() {
        Some(i) => i,
        None => return,
    };
    let s = &tc.act.sender;
    let kind = tc.act.req.kind();
    let ok = match &tc.act.req {
        Req::CancelAsk { id } => tc.st.book.asks.get(id).map_or(false, |a| &a.owner == s),
        Req::CancelBid { id } => tc.st.book.bids.get(id).map_or(false, |a| &a.owner == s),
        Req::Match { .. }
        | Req::ExpireAsk { .. }
        | Req::ExpireBid { .. }
        | Req::RejectAsk { .. }
        | Req::RejectBid { .. }
        | Req::Modify(_) => info.is_executor(s),
        Req::ApproveAsk { .. } => info.is_approver(s),
        Req::CreateAsk { .. } | Req::CreateBid { .. } | Req::Migrate(_) => return,
    };
    sink.cs(format!("C05/accepted-guarded/{kind}"));
    if !ok {
        // which roles does the sender hold?
        let mut roles = vec![];
        if info.is_executor(s) {
            roles.push("executor");
        }
        if info.is_approver(s) {
            roles.push("approver");
        }
        if tc.st.book.asks.values().any(|a| &a.owner == s) || tc.st.book.bids.values().any(|a| &a.owner == s) {
            roles.push("owner-of-some-order");
        }
        if roles.is_empty() {
            roles.push("none");
        }
        sink.v(
            "C05",
            format!("C05/{kind}/accepted-from-{}", roles.join("+")),
            format!("sender {s} lacks the required role; executors {:?} approvers {:?}", info.executors, info.approvers),
        );
    }
}

// =============================================================================================
// C02 / C03 match

pub struct MatchRef {
    pub failed: Vec<&'static str>,
    pub unclear: Option<String>,
    pub gross: u128,
    pub ask_fee: u128,
    pub refund_q: u128,
    /// acceptable (fee to bid-fee account, fee refunded to the bid owner) pairs
    pub fee_pairs: Vec<(u128, u128)>,
    pub improved: bool,
}

pub fn ref_match(book: &Book, sender: &str, ask_id: &str, bid_id: &str, price: &str, size: u128) -> MatchRef {
    let mut r = MatchRef {
        failed: vec![],
        unclear: None,
        gross: 0,
        ask_fee: 0,
        refund_q: 0,
        fee_pairs: vec![],
        improved: false,
    };
    let info = match &book.info {
        Some(i) => i,
        None => {
            r.unclear = Some("no configuration".into());
            return r;
        }
    };
    if !info.is_executor(sender) {
        r.failed.push("sender-not-executor");
    }
    let ask = book.asks.get(ask_id);
    let bid = book.bids.get(bid_id);
    if ask.is_none() {
        r.failed.push("ask-not-on-book");
    }
    if bid.is_none() {
        r.failed.push("bid-not-on-book");
    }
    if size < 1 {
        r.failed.push("size-below-1");
    }
    let p = parse_dec(price);
    if p.is_none() {
        if dec_is_clear(price) {
            r.failed.push("price-unparsable");
        } else {
            r.unclear = Some(format!("price string {price:?} outside the reference grammar"));
        }
    }
    let (ask, bid) = match (ask, bid) {
        (Some(a), Some(b)) => (a, b),
        _ => return r,
    };
    if ask.quote != bid.quote_denom {
        r.failed.push("quote-denominations-differ");
    }
    if ask.class == AskClass::Pending {
        r.failed.push("ask-pending-approval");
    }
    let (ap, bp) = match (parse_dec(&ask.price), parse_dec(&bid.price)) {
        (Some(a), Some(b)) => (a, b),
        _ => {
            r.unclear = Some("stored price outside the reference grammar".into());
            return r;
        }
    };
    match ap.cmp(bp) {
        Some(std::cmp::Ordering::Greater) => r.failed.push("ask-price-above-bid-price"),
        None => r.unclear = Some("overflow".into()),
        _ => {}
    }
    let rem_b = bid.rem_base().unwrap_or(0);
    if size > ask.size {
        r.failed.push("size-above-ask-remainder");
    }
    if size > rem_b {
        r.failed.push("size-above-bid-remainder");
    }
    let p = match p {
        Some(p) => p,
        None => return r,
    };
    if p != ap && p != bp {
        r.failed.push("price-is-neither-limit");
    }
    let sz = match Rat::int(size) {
        Some(s) => s,
        None => {
            r.unclear = Some("overflow".into());
            return r;
        }
    };
    let gross = match p.mul(sz) {
        Some(g) => g,
        None => {
            r.unclear = Some("overflow".into());
            return r;
        }
    };
    if !gross.is_int() || gross.n < 0 {
        r.failed.push("executed-quote-not-whole");
    }
    r.improved = p.cmp(bp) == Some(std::cmp::Ordering::Less);
    let orig = match bp.mul(sz) {
        Some(g) => g,
        None => {
            r.unclear = Some("overflow".into());
            return r;
        }
    };
    if r.improved && !orig.is_int() {
        r.failed.push("bid-price-quote-not-whole");
    }
    // a price strictly inside the spread is not a limit price (C03), but what a match at it owes everybody is
    // still defined by C02's statement: the amounts are computed for it as well
    let inside_spread = r.failed == vec!["price-is-neither-limit"] && p.cmp(ap) == Some(std::cmp::Ordering::Greater) && p.cmp(bp) == Some(std::cmp::Ordering::Less);
    if (!r.failed.is_empty() && !inside_spread) || r.unclear.is_some() {
        return r;
    }
    // eligible: amounts
    let gross_u = gross.to_u128().unwrap();
    r.gross = gross_u;
    r.ask_fee = match &info.ask_fee_info {
        None => 0,
        Some(f) => match parse_dec(&f.rate).and_then(|x| x.mul(gross)).and_then(|x| x.round_half_away()) {
            Some(v) => v,
            None => {
                r.unclear = Some("ask fee rate outside the reference grammar".into());
                return r;
            }
        },
    };
    let orig_u = if r.improved { orig.to_u128().unwrap() } else { gross_u };
    r.refund_q = orig_u - gross_u;
    let remq = bid.rem_quote().unwrap_or(0);
    let held = bid.rem_fee().unwrap_or(0);
    match &bid.fee {
        None => r.fee_pairs.push((0, 0)),
        Some((_, f)) => {
            let scaled = |spent: u128| -> Option<Vec<u128>> {
                let left = remq.checked_sub(spent)?;
                pro_rata_nearest(*f, left, bid.quote)
            };
            match (scaled(gross_u), scaled(orig_u)) {
                (Some(n1s), Some(n2s)) => {
                    for n1 in &n1s {
                        if *n1 > held {
                            continue;
                        }
                        let f1 = held - n1;
                        if r.improved {
                            for n2 in &n2s {
                                if *n2 > held - f1 {
                                    continue;
                                }
                                r.fee_pairs.push((f1, held - f1 - n2));
                            }
                        } else {
                            r.fee_pairs.push((f1, 0));
                        }
                    }
                    r.fee_pairs.sort();
                    r.fee_pairs.dedup();
                }
                _ => r.unclear = Some("bid's unspent quote below the amount to spend".into()),
            }
        }
    }
    r
}

fn expected_match_net(book: &Book, ask_id: &str, bid_id: &str, size: u128, r: &MatchRef, pair: (u128, u128)) -> Net {
    let info = book.info.as_ref().unwrap();
    let ask = &book.asks[ask_id];
    let bid = &book.bids[bid_id];
    let q = &bid.quote_denom;
    let mut m: Net = BTreeMap::new();
    let s = size as i128;
    let net_proceeds = r.gross as i128 - r.ask_fee as i128;
    match &ask.class {
        AskClass::Basic | AskClass::Pending => {
            add(&mut m, &bid.owner, &ask.base, s);
            add(&mut m, CONTRACT, &ask.base, -s);
            add(&mut m, &ask.owner, q, net_proceeds);
        }
        AskClass::Ready { approver, denom, .. } => {
            add(&mut m, &bid.owner, denom, s);
            add(&mut m, CONTRACT, denom, -s);
            add(&mut m, approver, &ask.base, s);
            add(&mut m, CONTRACT, &ask.base, -s);
            add(&mut m, approver, q, net_proceeds);
        }
    }
    add(&mut m, CONTRACT, q, -net_proceeds);
    if r.ask_fee > 0 {
        if let Some(f) = &info.ask_fee_info {
            add(&mut m, &f.account, q, r.ask_fee as i128);
            add(&mut m, CONTRACT, q, -(r.ask_fee as i128));
        }
    }
    let fd = bid.fee.as_ref().map_or(q.clone(), |f| f.0.clone());
    if pair.0 > 0 {
        let acct = info.bid_fee_info.as_ref().map_or("<no bid fee account>".to_string(), |f| f.account.clone());
        add(&mut m, &acct, &fd, pair.0 as i128);
        add(&mut m, CONTRACT, &fd, -(pair.0 as i128));
    }
    if r.refund_q > 0 {
        add(&mut m, &bid.owner, q, r.refund_q as i128);
        add(&mut m, CONTRACT, q, -(r.refund_q as i128));
    }
    if pair.1 > 0 {
        add(&mut m, &bid.owner, &fd, pair.1 as i128);
        add(&mut m, CONTRACT, &fd, -(pair.1 as i128));
    }
    clean(m)
}

fn c02_c03_match(tc: &TransCtx, sink: &mut Sink) {
    let (ask_id, bid_id, price, size) = match &tc.act.req {
        Req::Match { ask_id, bid_id, price, size } => (ask_id, bid_id, price, *size),
        _ => return,
    };
    let book = &tc.st.book;
    let r = ref_match(book, &tc.act.sender, ask_id, bid_id, price, size);
    if let Some(u) = &r.unclear {
        sink.cs(format!("no-verdict/match/{u}"));
        return;
    }
    let info = book.info.as_ref().unwrap();
    match tc.out {
        Outcome::Accepted(a) => {
            sink.c("C03/accepted-matches");
            if !r.failed.is_empty() {
                for f in &r.failed {
                    sink.v(
                        "C03",
                        format!("C03/accepted-although/{f}"),
                        format!("ask {:?} bid {:?}", book.asks.get(ask_id), book.bids.get(bid_id)),
                    );
                }
                if r.failed == vec!["price-is-neither-limit"] && r.gross > 0 {
                    // accepted at a price inside the spread: C02 still says what everybody is owed
                    sink.c("C02/settlement-judged-for-a-price-inside-the-spread");
                } else {
                if r.failed == vec!["bid-price-quote-not-whole"] {
                    // C02: the price improvement (bid price - p) * s is fractional, so no payout can be exactly it
                    sink.v(
                        "C02",
                        "C02/price-improvement-refund-cannot-be-exact".into(),
                        format!("size {size} at {price} against bid {:?}: (bid price - p) * s is not a whole amount; observed {:?}", book.bids.get(bid_id), tc.net),
                    );
                }
                return;
                }
            }
            // C02: settlement
            let ask = &book.asks[ask_id];
            let bid = &book.bids[bid_id];
            let post = tc.post.as_ref().unwrap();
            let full_ask = size == ask.size;
            let full_bid = Some(size) == bid.rem_base();
            sink.cs(format!(
                "C02/match/{}/ask-{}/bid-{}/{}",
                ask_class_name(&ask.class),
                if full_ask { "complete" } else { "partial" },
                if full_bid { "complete" } else { "partial" },
                if r.improved { "at-ask-price-below-bid" } else { "at-bid-price" },
            ));
            if r.ask_fee == 0 && info.ask_fee_info.is_some() {
                sink.c("C02/ask-fee-rounds-to-zero");
            }
            if r.ask_fee > 0 && r.ask_fee == r.gross {
                sink.c("C02/ask-fee-whole-proceeds");
            }
            if bid.fee.is_some() && r.fee_pairs.iter().any(|p| p.0 == 0) {
                sink.c("C02/bid-fill-fee-zero");
            }
            if r.fee_pairs.len() > 1 {
                sink.c("C02/bid-fee-tie-leeway");
            }
            let mut parties: Vec<&str> = vec![&ask.owner, &bid.owner];
            if let AskClass::Ready { approver, .. } = &ask.class {
                parties.push(approver);
            }
            if let Some(f) = &info.ask_fee_info {
                parties.push(&f.account);
            }
            if let Some(f) = &info.bid_fee_info {
                parties.push(&f.account);
            }
            let n = parties.len();
            parties.sort();
            parties.dedup();
            if parties.len() < n {
                sink.c("C02/coinciding-parties");
            }
            let expected: Vec<Net> = r.fee_pairs.iter().map(|p| expected_match_net(book, ask_id, bid_id, size, &r, *p)).collect();
            if r.fee_pairs.is_empty() {
                sink.v("C02", "C02/no-acceptable-fee-split".into(), format!("bid {bid:?}: held fee below the pro-rata amount before the fill"));
            } else if !expected.iter().any(|e| *e == tc.net) {
                // classify the difference against the first expectation
                let e = &expected[0];
                let mut accts: BTreeSet<(String, String)> = e.keys().cloned().collect();
                accts.extend(tc.net.keys().cloned());
                let mut what = vec![];
                for k in accts {
                    let ev = *e.get(&k).unwrap_or(&0);
                    let gv = *tc.net.get(&k).unwrap_or(&0);
                    if ev != gv {
                        let who = if k.0 == CONTRACT {
                            "contract"
                        } else if k.0 == bid.owner {
                            "bid-owner"
                        } else if k.0 == ask.owner {
                            "ask-owner"
                        } else if matches!(&ask.class, AskClass::Ready{approver, ..} if approver == &k.0) {
                            "approver"
                        } else if info.ask_fee_info.as_ref().map_or(false, |f| f.account == k.0) {
                            "ask-fee-account"
                        } else if info.bid_fee_info.as_ref().map_or(false, |f| f.account == k.0) {
                            "bid-fee-account"
                        } else {
                            "third-party"
                        };
                        what.push(format!("{who}:{}", denom_role(tc.st.cfg, &k.1)));
                    }
                }
                what.sort();
                what.dedup();
                sink.v(
                    "C02",
                    format!("C02/net-change/{}/{}", ask_class_name(&ask.class), what.join(",")),
                    format!("expected one of {expected:?}, observed {:?}; ask {ask:?} bid {bid:?}", tc.net),
                );
            }
            // C09: the fee amounts themselves (observable when the fee account is nobody else)
            {
                let mut parties: Vec<&str> = vec![&ask.owner, &bid.owner];
                if let AskClass::Ready { approver, .. } = &ask.class {
                    parties.push(approver);
                }
                let askacct = info.ask_fee_info.as_ref().map(|f| f.account.as_str());
                let bidacct = info.bid_fee_info.as_ref().map(|f| f.account.as_str());
                let to = |acct: &str| -> u128 { a.flows.iter().filter(|f| f.from == CONTRACT && f.to == acct).map(|f| f.amount).sum() };
                // the selling side is itself the ask-fee account: proceeds and fee both reach it, i.e. the whole executed amount
                if let Some(acct) = askacct {
                    let seller: &str = match &ask.class {
                        AskClass::Ready { approver, .. } => approver,
                        _ => &ask.owner,
                    };
                    if acct == seller && acct != bid.owner && Some(acct) != bidacct && acct != CONTRACT {
                        sink.c("C09/match/seller-is-ask-fee-account");
                        let got: u128 = a.flows.iter().filter(|f| f.from == CONTRACT && f.to == acct && f.denom == bid.quote_denom).map(|f| f.amount).sum();
                        if got != r.gross {
                            sink.v("C09", "C09/match/ask-fee-does-not-reach-the-fee-account".into(), format!("{acct} is seller and ask-fee account and received {got} of {} executed (fee {})", r.gross, r.ask_fee));
                        }
                    }
                }
                if let Some(acct) = askacct {
                    if !parties.contains(&acct) && Some(acct) != bidacct {
                        sink.c("C09/match/ask-fee-compared");
                        if to(acct) != r.ask_fee {
                            sink.v("C09", "C09/match/ask-fee-not-rate-times-executed-amount".into(), format!("paid {}, rate {:?} x gross {} rounds to {}", to(acct), info.ask_fee_info, r.gross, r.ask_fee));
                        }
                    }
                }
                if let Some(acct) = bidacct {
                    if !parties.contains(&acct) && Some(acct) != askacct && !r.fee_pairs.is_empty() {
                        sink.c("C09/match/bid-fill-fee-compared");
                        if !r.fee_pairs.iter().any(|p| p.0 == to(acct)) {
                            sink.v("C09", "C09/match/fill-fee-not-pro-rata".into(), format!("paid {}, acceptable (paid, refunded) pairs {:?}; bid {bid:?}", to(acct), r.fee_pairs));
                        }
                        // C02: "the bid's pro-rated fee" is a share of the fee that was escrowed, whatever the
                        // record says is still held: nearest(fee x unspent / quote) - nearest(fee x (unspent - spent) / quote)
                        if let (Some((_, f)), Some(rq)) = (&bid.fee, bid.rem_quote()) {
                            if let (Some(h0s), Some(h1s)) = (pro_rata_nearest(*f, rq, bid.quote), rq.checked_sub(r.gross).and_then(|left| pro_rata_nearest(*f, left, bid.quote))) {
                                let paid = to(acct);
                                let ok = h0s.iter().any(|h0| h1s.iter().any(|h1| h0 >= h1 && h0 - h1 == paid));
                                if !ok {
                                    sink.v("C02", "C02/bid-fee-not-the-pro-rated-share-of-the-escrowed-fee".into(), format!("paid {paid}; escrowed fee {f}, unspent quote {rq} of {}, spent {}; bid {bid:?}", bid.quote, r.gross));
                                }
                            }
                        }
                    }
                }
                // (only where the quote denomination is not also one of the ask's denominations)
                let overlap = ask.base == bid.quote_denom || matches!(&ask.class, AskClass::Ready { denom, .. } if denom == &bid.quote_denom);
                if !r.fee_pairs.is_empty() && !overlap {
                    let out_q: i128 = -tc.net.get(&(CONTRACT.to_string(), bid.quote_denom.clone())).copied().unwrap_or(0);
                    if post.bids.get(bid_id).is_none() {
                        let want = bid.rem_quote().unwrap_or(0) as i128 + bid.rem_fee().unwrap_or(0) as i128;
                        if out_q != want {
                            sink.v("C09", "C09/match/closing-bid-does-not-release-its-whole-fee".into(), format!("quote-denomination outflow {out_q}, unspent quote + held fee {want}; bid {bid:?}"));
                        }
                    }
                }
            }
            // remaining amounts fall by exactly these quantities
            let qa = post.asks.get(ask_id);
            let exp_ask_size = ask.size - size;
            if qa.map_or(0, |x| x.size) != exp_ask_size {
                sink.v("C02", "C02/ask-remainder".into(), format!("ask size {} -> {:?}, executed {size}", ask.size, qa.map(|x| x.size)));
            }
            let qb = post.bids.get(bid_id);
            let exp_rem_base = bid.rem_base().unwrap_or(0) - size;
            let exp_rem_q = bid.rem_quote().unwrap_or(0) as i128 - r.gross as i128 - r.refund_q as i128;
            let (got_rb, got_rq, got_rf) = match qb {
                Some(x) => (x.rem_base().unwrap_or(0), x.rem_quote().unwrap_or(0) as i128, x.rem_fee().unwrap_or(0)),
                None => (0, 0, 0),
            };
            if got_rb != exp_rem_base {
                sink.v("C02", "C02/bid-remainder/base".into(), format!("expected remaining base {exp_rem_base}, recorded {got_rb}"));
            }
            if qb.is_some() {
                if got_rq != exp_rem_q {
                    sink.v("C02", "C02/bid-remainder/quote".into(), format!("expected unspent quote {exp_rem_q}, recorded {got_rq}"));
                }
                let held = bid.rem_fee().unwrap_or(0);
                if !r.fee_pairs.iter().any(|p| held - p.0 - p.1 == got_rf) {
                    sink.v("C02", "C02/bid-remainder/fee".into(), format!("held fee {held} -> {got_rf}, acceptable (paid, refunded) {:?}", r.fee_pairs));
                }
            }
            // C09: ask fee exactness is part of the expected net; closing bid releases its whole fee
            if qb.is_none() {
                sink.c("C09/bid-closed-by-match");
            }
            let _ = a;
        }
        Outcome::Refused(_) | Outcome::Aborted => {
            if !r.failed.is_empty() {
                sink.c("C03/refused-ineligible");
                if r.failed.len() == 1 {
                    // the request violates exactly this one condition: the refusal exercises it alone
                    sink.cs(format!("C03/refused-solely-because/{}", r.failed[0]));
                }
                return;
            }
            sink.c("C03/eligible-request-judged-for-converse");
            c03_converse(tc, &r, sink, false);
        }
    }
    if let Outcome::Accepted(a) = tc.out {
        if r.failed.is_empty() && !a.deliverable() {
            c03_converse(tc, &r, sink, true);
        }
    }
}

fn c03_converse(tc: &TransCtx, r: &MatchRef, sink: &mut Sink, undeliverable: bool) {
    let (ask_id, bid_id) = match &tc.act.req {
        Req::Match { ask_id, bid_id, .. } => (ask_id, bid_id),
        _ => return,
    };
    let info = tc.info().unwrap();
    // the statement is silent on requests with attached funds and on non-canonical ids
    if !tc.act.funds.is_empty() {
        sink.c("no-verdict/match/funds-attached");
        return;
    }
    if !is_canonical_uuid(ask_id) || !is_canonical_uuid(bid_id) {
        sink.c("no-verdict/match/non-canonical-id");
        return;
    }
    // fees payable
    if r.ask_fee > r.gross {
        sink.c("no-verdict/match/ask-fee-exceeds-proceeds");
        return;
    }
    if r.fee_pairs.is_empty() {
        sink.c("no-verdict/match/no-acceptable-fee-split");
        return;
    }
    if r.fee_pairs.iter().any(|p| p.0 > 0) && info.bid_fee_info.is_none() {
        sink.c("no-verdict/match/bid-fee-account-missing");
        return;
    }
    let why = match tc.out {
        Outcome::Refused(e) => format!("refused: {e}"),
        Outcome::Aborted => "aborted (panic)".into(),
        Outcome::Accepted(a) => format!("accepted but undeliverable: flows {:?} bad {:?}", a.flows, a.bad_msgs),
    };
    let cls = match tc.out {
        Outcome::Refused(e) => e.split(':').next().unwrap_or("").trim().replace(' ', "-"),
        Outcome::Aborted => "panic".into(),
        Outcome::Accepted(_) => "undeliverable".into(),
    };
    let _ = undeliverable;
    sink.v(
        "C03",
        format!("C03/eligible-match-not-carried-out/{cls}"),
        format!("{why}; ask {:?} bid {:?}", tc.st.book.asks.get(ask_id), tc.st.book.bids.get(bid_id)),
    );
}

// =============================================================================================
// C04 cancel / expire / reject

fn c04_reversal(tc: &TransCtx, sink: &mut Sink) {
    let a = match tc.out {
        Outcome::Accepted(a) => a,
        _ => return,
    };
    let kind = tc.act.req.kind();
    // "returns ... to whoever escrowed it": a payout requested through a mechanism the chain refuses for
    // that denomination (or of a zero coin) returns nothing - the whole request fails there
    let refused_by_chain: Vec<String> = a
        .flows
        .iter()
        .filter(|f| match &f.kind {
            FlowKind::Bank => tc.st.cfg.restricted(&f.denom) || f.amount == 0,
            FlowKind::MarkerTransfer { .. } => !tc.st.cfg.restricted(&f.denom) || f.amount == 0,
            FlowKind::Attached => false,
        })
        .map(|f| format!("{f:?}"))
        .chain(a.bad_msgs.iter().cloned())
        .collect();
    if !refused_by_chain.is_empty() {
        sink.v("C04", format!("C04/{kind}/return-requested-in-a-form-the-chain-refuses"), format!("{refused_by_chain:?}"));
    }
    let book = &tc.st.book;
    let post = tc.post.as_ref().unwrap();
    let info = match &book.info {
        Some(i) => i,
        None => return,
    };
    let inc = info.increment();
    match &tc.act.req {
        Req::CancelAsk { id } | Req::ExpireAsk { id } | Req::RejectAsk { id, .. } => {
            let explicit = match &tc.act.req {
                Req::RejectAsk { size, .. } => *size,
                _ => None,
            };
            let ask = match book.asks.get(id) {
                Some(x) => x,
                None => {
                    sink.v("C04", format!("C04/{kind}/accepted-for-order-not-on-book"), id.clone());
                    return;
                }
            };
            let c = explicit.unwrap_or(ask.size);
            sink.cs(format!(
                "C04/{kind}/{}/{}",
                ask_class_name(&ask.class),
                if explicit.is_some() { if c == ask.size { "explicit-full" } else { "explicit-partial" } } else { "default-full" }
            ));
            if let Some(c) = explicit {
                if c == 0 || inc == 0 || c % inc != 0 || c > ask.size {
                    sink.v(
                        "C04",
                        format!("C04/{kind}/partial-size-not-positive-lot-multiple-within-remainder"),
                        format!("size {c}, increment {inc}, remaining {}", ask.size),
                    );
                    return;
                }
            }
            if c > ask.size {
                return;
            }
            let mut e: Net = BTreeMap::new();
            add(&mut e, &ask.owner, &ask.base, c as i128);
            add(&mut e, CONTRACT, &ask.base, -(c as i128));
            if let AskClass::Ready { approver, denom, .. } = &ask.class {
                add(&mut e, approver, denom, c as i128);
                add(&mut e, CONTRACT, denom, -(c as i128));
            }
            let e = clean(e);
            // C08: the approver's unconsumed part really comes back (right mechanism for its denomination)
            if let AskClass::Ready { approver, denom, .. } = &ask.class {
                for f in tc.acc().unwrap().flows.iter().filter(|f| &f.to == approver && &f.denom == denom && f.from == CONTRACT) {
                    let by_transfer = matches!(f.kind, FlowKind::MarkerTransfer { .. });
                    sink.c("C08/approver-share-return-mechanism-checked");
                    if by_transfer != tc.st.cfg.restricted(denom) {
                        sink.v("C08", format!("C08/{kind}/approver-share-returned-by-the-wrong-mechanism"), format!("{f:?}; {denom} restricted: {}", tc.st.cfg.restricted(denom)));
                    }
                }
            }
            if e != tc.net {
                sink.v(
                    "C04",
                    format!("C04/{kind}/{}/payout", ask_class_name(&ask.class)),
                    format!("expected {e:?}, observed {:?}; ask {ask:?}", tc.net),
                );
            }
            let q = post.asks.get(id);
            let exp = ask.size - c;
            if q.map_or(0, |x| x.size) != exp {
                sink.v("C04", format!("C04/{kind}/ask-remainder"), format!("expected remaining {exp}, recorded {:?}", q.map(|x| x.size)));
            }
            if exp == 0 && q.is_some() {
                sink.v("C04", format!("C04/{kind}/order-at-zero-still-on-book"), format!("{q:?}"));
            }
            if let (Some(x), AskClass::Ready { .. }) = (q, &ask.class) {
                if let AskClass::Ready { amount, .. } = &x.class {
                    if *amount != exp {
                        sink.v(
                            "C04",
                            format!("C04/{kind}/approver-amount-not-reduced"),
                            format!("approver-supplied amount recorded {amount}, remaining size {exp}"),
                        );
                    }
                }
            }
        }
        Req::CancelBid { id } | Req::ExpireBid { id } | Req::RejectBid { id, .. } => {
            let explicit = match &tc.act.req {
                Req::RejectBid { size, .. } => *size,
                _ => None,
            };
            let bid = match book.bids.get(id) {
                Some(x) => x,
                None => {
                    sink.v("C04", format!("C04/{kind}/accepted-for-order-not-on-book"), id.clone());
                    return;
                }
            };
            let (rb, rq, held) = match (bid.rem_base(), bid.rem_quote(), bid.rem_fee()) {
                (Some(a), Some(b), Some(c)) => (a, b, c),
                _ => return,
            };
            let c = explicit.unwrap_or(rb);
            sink.cs(format!(
                "C04/{kind}/{}/{}",
                if bid.fee.is_some() { "fee" } else { "no-fee" },
                if explicit.is_some() { if c == rb { "explicit-full" } else { "explicit-partial" } } else { "default-full" }
            ));
            if bid.acc_base > 0 {
                sink.cs(format!("C04/{kind}/partly-filled-or-rejected-before"));
            }
            if let Some(c) = explicit {
                if c == 0 || inc == 0 || c % inc != 0 || c > rb {
                    sink.v(
                        "C04",
                        format!("C04/{kind}/partial-size-not-positive-lot-multiple-within-remainder"),
                        format!("size {c}, increment {inc}, remaining {rb}"),
                    );
                    return;
                }
            }
            if c > rb {
                return;
            }
            let p = match parse_dec(&bid.price) {
                Some(p) => p,
                None => {
                    sink.c("no-verdict/reversal/stored-price-outside-grammar");
                    return;
                }
            };
            let cq = match Rat::int(c).and_then(|x| p.mul(x)).and_then(|x| x.to_u128()) {
                Some(v) => v,
                None => {
                    sink.v("C04", format!("C04/{kind}/returned-quote-not-whole"), format!("price {} x size {c}", bid.price));
                    return;
                }
            };
            if cq > rq {
                sink.c("no-verdict/reversal/unspent-quote-below-price-times-size");
                return;
            }
            let hs: Vec<u128> = match &bid.fee {
                None => vec![0],
                Some((_, f)) => match pro_rata_nearest(*f, rq - cq, bid.quote) {
                    Some(v) => v.into_iter().filter(|h| *h <= held).collect(),
                    None => return,
                },
            };
            if hs.len() > 1 {
                sink.c("C04/bid-fee-tie-leeway");
            }
            let fd = bid.fee.as_ref().map_or(bid.quote_denom.clone(), |f| f.0.clone());
            let exp: Vec<Net> = hs
                .iter()
                .map(|h| {
                    let mut e: Net = BTreeMap::new();
                    add(&mut e, &bid.owner, &bid.quote_denom, cq as i128);
                    add(&mut e, CONTRACT, &bid.quote_denom, -(cq as i128));
                    add(&mut e, &bid.owner, &fd, (held - h) as i128);
                    add(&mut e, CONTRACT, &fd, -((held - h) as i128));
                    clean(e)
                })
                .collect();
            if hs.is_empty() {
                sink.c("no-verdict/reversal/held-fee-below-pro-rata");
                return;
            }
            if !exp.iter().any(|e| *e == tc.net) {
                sink.v(
                    "C04",
                    format!("C04/{kind}/{}/payout", if bid.fee.is_some() { "fee" } else { "no-fee" }),
                    format!("expected one of {exp:?}, observed {:?}; bid {bid:?}", tc.net),
                );
            }
            let q = post.bids.get(id);
            let exp_rb = rb - c;
            let got_rb = q.map_or(0, |x| x.rem_base().unwrap_or(0));
            if got_rb != exp_rb {
                sink.v("C04", format!("C04/{kind}/bid-remainder/base"), format!("expected {exp_rb}, recorded {got_rb}"));
            }
            if exp_rb == 0 && q.is_some() {
                sink.v("C04", format!("C04/{kind}/order-at-zero-still-on-book"), format!("{q:?}"));
            }
            if let Some(x) = q {
                if x.rem_quote() != Some(rq - cq) {
                    sink.v("C04", format!("C04/{kind}/bid-remainder/quote"), format!("expected {}, recorded {:?}", rq - cq, x.rem_quote()));
                }
                if !hs.iter().any(|h| Some(*h) == x.rem_fee()) {
                    sink.v("C04", format!("C04/{kind}/bid-remainder/fee"), format!("acceptable held fee {hs:?}, recorded {:?}", x.rem_fee()));
                }
            } else {
                sink.c("C09/bid-closed-by-reversal");
                let out_q: i128 = -tc.net.get(&(CONTRACT.to_string(), bid.quote_denom.clone())).copied().unwrap_or(0);
                if out_q != (rq + held) as i128 {
                    sink.v("C09", format!("C09/{kind}/closing-bid-does-not-release-its-whole-fee"), format!("quote-denomination outflow {out_q}, unspent quote + held fee {}; bid {bid:?}", rq + held));
                }
            }
        }
        _ => {}
    }
}

// =============================================================================================
// C07 admission

/// Some(true) admit, Some(false) refuse, None: the statement does not decide this request
pub fn ref_admit(tc: &TransCtx) -> (Option<bool>, Vec<&'static str>) {
    let cfg = tc.st.cfg;
    let book = &tc.st.book;
    let info = match &book.info {
        Some(i) => i,
        None => return (None, vec![]),
    };
    let mut failed: Vec<&'static str> = vec![];
    let mut unclear = false;
    let sender = &tc.act.sender;
    let funds: Vec<(String, u128)> = tc.act.funds.iter().map(|c| (c.denom.clone(), c.amount.u128())).collect();
    let mut price_check = |price: &str, failed: &mut Vec<&'static str>| -> Option<Rat> {
        match parse_dec(price) {
            Some(p) => {
                if !p.is_pos() {
                    failed.push("price-not-positive");
                    None
                } else if !within_precision(p, info.precision()) {
                    failed.push("price-beyond-precision");
                    None
                } else {
                    Some(p)
                }
            }
            None => {
                if dec_is_clear(price) {
                    failed.push("price-unparsable");
                } else {
                    unclear = true;
                }
                None
            }
        }
    };
    match &tc.act.req {
        Req::CreateAsk { id, base, quote, price, size } => {
            if !is_canonical_uuid(id) {
                failed.push("id-not-canonical");
            } else if book.asks.contains_key(id) {
                failed.push("id-already-on-ask-side");
            }
            if base != &info.base_denom && !info.convertible_base_denoms.contains(base) {
                failed.push("base-not-traded");
            }
            if !info.supported_quote_denoms.contains(quote) {
                failed.push("quote-not-traded");
            }
            let inc = info.increment();
            if *size < 1 || inc == 0 || size % inc != 0 {
                failed.push("size-not-positive-lot-multiple");
            }
            if let Some(p) = price_check(price, &mut failed) {
                match Rat::int(*size).and_then(|s| p.mul(s)) {
                    Some(t) => {
                        if !t.is_int() {
                            failed.push("total-not-whole");
                        } else if t.to_u128().map_or(true, |x| x > DECIMAL_MAX) {
                            // (no verdict: whether an ask whose total is beyond the 96-bit limit is recorded is not part of the statement)
                            unclear = true;
                        }
                    }
                    None => unclear = true,
                }
            }
            if cfg.restricted(base) {
                if !funds.is_empty() {
                    failed.push("funds-attached-for-restricted");
                }
            } else if funds != vec![(base.clone(), *size)] {
                failed.push("funds-not-exactly-the-escrow");
            }
            if !cfg.chain.has_attrs(sender, &info.ask_required_attributes) {
                failed.push("missing-attribute");
            }
        }
        Req::CreateBid { id, base, fee, price, quote, quote_size, size } => {
            if !is_canonical_uuid(id) {
                failed.push("id-not-canonical");
            } else if book.bids.contains_key(id) {
                failed.push("id-already-on-bid-side");
            }
            if base != &info.base_denom {
                failed.push("base-not-traded");
            }
            if !info.supported_quote_denoms.contains(quote) {
                failed.push("quote-not-traded");
            }
            let inc = info.increment();
            if *size < 1 || inc == 0 || size % inc != 0 {
                failed.push("size-not-positive-lot-multiple");
            }
            let mut total: Option<u128> = None;
            if let Some(p) = price_check(price, &mut failed) {
                match Rat::int(*size).and_then(|s| p.mul(s)) {
                    Some(t) => match t.to_u128() {
                        // "Total (price * size) exceeds max allowed": amounts are 96-bit decimals in this contract, and a
                        // total beyond 2^96 - 1 is refused by design, whatever quote size is stated
                        Some(t) if t > DECIMAL_MAX => failed.push("total-beyond-the-96-bit-amount-limit"),
                        Some(t) => {
                            if t != *quote_size || t == 0 {
                                failed.push("quote-size-not-price-times-size");
                            } else {
                                total = Some(t);
                            }
                        }
                        None => failed.push("total-not-whole"),
                    },
                    None => unclear = true,
                }
            }
            let mut need: Option<u128> = None;
            if let Some(t) = total {
                let due = match &info.bid_fee_info {
                    None => Some(0),
                    Some(f) => parse_dec(&f.rate).and_then(|r| r.mul(Rat::int(t)?)).and_then(|x| x.round_half_away()),
                };
                match due {
                    None => unclear = true,
                    Some(due) => match fee {
                        None => {
                            if due != 0 {
                                failed.push("fee-absent-but-due");
                            } else {
                                need = Some(t);
                            }
                        }
                        Some((d, a)) => {
                            if *a != due {
                                failed.push("fee-amount-not-the-rate");
                            } else if d != quote {
                                if *a == 0 {
                                    // zero fee in another denomination: the statement does not decide
                                    unclear = true;
                                } else {
                                    failed.push("fee-denomination-not-quote");
                                }
                            } else {
                                need = Some(t + a);
                            }
                        }
                    },
                }
            }
            if cfg.restricted(quote) {
                if !funds.is_empty() {
                    failed.push("funds-attached-for-restricted");
                }
            } else if let Some(n) = need {
                if funds != vec![(quote.clone(), n)] {
                    failed.push("funds-not-exactly-the-escrow");
                }
            }
            if !cfg.chain.has_attrs(sender, &info.bid_required_attributes) {
                failed.push("missing-attribute");
            }
        }
        _ => return (None, vec![]),
    }
    if !failed.is_empty() {
        (Some(false), failed)
    } else if unclear {
        (None, failed)
    } else {
        (Some(true), failed)
    }
}

/// 2^96 - 1, the largest amount a 96-bit decimal holds
const DECIMAL_MAX: u128 = 79_228_162_514_264_337_593_543_950_335;

fn c07_admission(tc: &TransCtx, sink: &mut Sink) {
    let kind = tc.act.req.kind();
    let (verdict, failed) = ref_admit(tc);
    let cfg = tc.st.cfg;
    match (tc.out, verdict) {
        (_, None) => sink.cs(format!("no-verdict/{kind}/undecided-shape")),
        (Outcome::Accepted(a), Some(false)) => {
            for f in failed {
                if f == "fee-amount-not-the-rate" || f == "fee-absent-but-due" || f == "fee-denomination-not-quote" {
                    sink.v("C09", format!("C09/{kind}/escrowed-fee-not-rate-times-total/{f}"), format!("{}", tc.act.json));
                }
                sink.v("C07", format!("C07/{kind}/admitted-although/{f}"), format!("funds {:?}", tc.act.funds));
            }
            let _ = a;
        }
        (Outcome::Accepted(a), Some(true)) => {
            sink.cs(format!("C07/{kind}/admitted"));
            let post = tc.post.as_ref().unwrap();
            // escrow: exactly one attached coin, or exactly one pull transfer from the sender
            let escrow_denom_amt: (String, u128) = match &tc.act.req {
                Req::CreateAsk { base, size, .. } => (base.clone(), *size),
                Req::CreateBid { quote, quote_size, fee, .. } => (quote.clone(), quote_size + fee.as_ref().map_or(0, |f| f.1)),
                _ => unreachable!(),
            };
            let restricted = cfg.restricted(&escrow_denom_amt.0);
            let non_attached: Vec<_> = a.flows.iter().filter(|f| f.kind != FlowKind::Attached).collect();
            if restricted {
                sink.cs(format!("C07/{kind}/pull-in"));
                let ok = non_attached.len() == 1
                    && matches!(non_attached[0].kind, FlowKind::MarkerTransfer { .. })
                    && non_attached[0].from == tc.act.sender
                    && non_attached[0].to == CONTRACT
                    && non_attached[0].denom == escrow_denom_amt.0
                    && non_attached[0].amount == escrow_denom_amt.1;
                if !ok {
                    sink.v("C07", format!("C07/{kind}/restricted-escrow-not-one-exact-pull"), format!("flows {:?}, needed {escrow_denom_amt:?}", a.flows));
                }
            } else if !non_attached.is_empty() {
                sink.v("C07", format!("C07/{kind}/messages-on-plain-escrow"), format!("flows {:?}", a.flows));
            }
            // recorded order reproduces the request
            match &tc.act.req {
                Req::CreateAsk { id, base, quote, price, size } => {
                    let info = tc.info().unwrap();
                    let exp = RefAsk {
                        key: id.clone(),
                        id: id.clone(),
                        owner: tc.act.sender.clone(),
                        base: base.clone(),
                        quote: quote.clone(),
                        price: price.clone(),
                        size: *size,
                        class: if base == &info.base_denom { AskClass::Basic } else { AskClass::Pending },
                    };
                    if post.asks.get(id) != Some(&exp) {
                        sink.v("C07", format!("C07/{kind}/recorded-differs-from-request"), format!("expected {exp:?}, recorded {:?}", post.asks.get(id)));
                    }
                }
                Req::CreateBid { id, base, fee, price, quote, quote_size, size } => {
                    let exp = RefBid {
                        key: id.clone(),
                        id: id.clone(),
                        owner: tc.act.sender.clone(),
                        base_denom: base.clone(),
                        size: *size,
                        price: price.clone(),
                        quote_denom: quote.clone(),
                        quote: *quote_size,
                        fee: fee.clone(),
                        acc_base: 0,
                        acc_quote: 0,
                        acc_fee: 0,
                    };
                    if post.bids.get(id) != Some(&exp) {
                        sink.v("C07", format!("C07/{kind}/recorded-differs-from-request"), format!("expected {exp:?}, recorded {:?}", post.bids.get(id)));
                    }
                    if fee.as_ref().map_or(0, |f| f.1) > 0 {
                        sink.c("C09/create-bid-fee-nonzero");
                    } else if tc.info().unwrap().bid_fee_info.is_some() {
                        sink.c("C09/create-bid-fee-rounds-to-zero");
                    }
                }
                _ => {}
            }
        }
        (Outcome::Refused(e), Some(true)) => {
            let cls = e.split(':').next().unwrap_or("").trim().replace(' ', "-");
            sink.v("C07", format!("C07/{kind}/well-formed-funded-order-refused/{cls}"), e.clone());
        }
        (Outcome::Aborted, Some(true)) => {
            sink.v("C07", format!("C07/{kind}/well-formed-funded-order-refused/panic"), "panic".into());
        }
        (_, Some(false)) => {
            sink.cs(format!("C07/{kind}/refused-ill-formed"));
            if failed.len() == 1 {
                sink.cs(format!("C07/{kind}/refused-solely-because/{}", failed[0]));
            }
        }
    }
}

// =============================================================================================
// C08 approval

fn c08_approve(tc: &TransCtx, sink: &mut Sink) {
    let (id, base, size) = match &tc.act.req {
        Req::ApproveAsk { id, base, size } => (id, base, *size),
        _ => return,
    };
    let a = match tc.out {
        Outcome::Accepted(a) => a,
        _ => return,
    };
    let cfg = tc.st.cfg;
    let info = match tc.info() {
        Some(i) => i,
        None => return,
    };
    let post = tc.post.as_ref().unwrap();
    sink.c("C08/approvals-accepted");
    let ask = match tc.st.book.asks.get(id) {
        Some(x) => x,
        None => {
            sink.v("C08", "C08/approve/ask-not-on-book".into(), id.clone());
            return;
        }
    };
    match &ask.class {
        AskClass::Basic => sink.v("C08", "C08/approve/plain-ask-approved".into(), format!("{ask:?}")),
        AskClass::Ready { .. } => sink.v("C08", "C08/approve/already-approved".into(), format!("{ask:?}")),
        AskClass::Pending => {}
    }
    if !info.is_approver(&tc.act.sender) {
        sink.v("C08", "C08/approve/sender-not-approver".into(), tc.act.sender.clone());
    }
    if base != &info.base_denom {
        sink.v("C08", "C08/approve/escrow-not-in-base-denomination".into(), base.clone());
    }
    if size != ask.size {
        sink.v("C08", "C08/approve/size-differs-from-current-ask-size".into(), format!("approved {size}, ask {}", ask.size));
    }
    // escrow exactly `ask.size` of the contract base, by the sender
    let want = (info.base_denom.clone(), ask.size);
    if cfg.restricted(&info.base_denom) {
        let non_attached: Vec<_> = a.flows.iter().filter(|f| f.kind != FlowKind::Attached).collect();
        let ok = a.flows.iter().all(|f| f.kind != FlowKind::Attached)
            && non_attached.len() == 1
            && non_attached[0].from == tc.act.sender
            && non_attached[0].to == CONTRACT
            && (non_attached[0].denom.clone(), non_attached[0].amount) == want;
        if !ok {
            sink.v("C08", "C08/approve/escrow-not-exact/restricted".into(), format!("flows {:?}, needed {want:?}", a.flows));
        }
    } else {
        let ok = a.flows.len() == 1 && a.flows[0].kind == FlowKind::Attached && (a.flows[0].denom.clone(), a.flows[0].amount) == want;
        if !ok {
            sink.v("C08", "C08/approve/escrow-not-exact/plain".into(), format!("flows {:?}, needed {want:?}", a.flows));
        }
    }
    match post.asks.get(id) {
        Some(q) => {
            let exp = AskClass::Ready { approver: tc.act.sender.clone(), denom: info.base_denom.clone(), amount: ask.size };
            if q.class != exp {
                sink.v("C08", "C08/approve/recorded-status".into(), format!("expected {exp:?}, recorded {:?}", q.class));
            }
        }
        None => sink.v("C08", "C08/approve/ask-vanished".into(), id.clone()),
    }
}

// =============================================================================================
// C12 configuration change

fn rate_eq(a: &Option<JFee>, b: &Option<JFee>) -> Option<bool> {
    match (a, b) {
        (None, None) => Some(true),
        (Some(x), Some(y)) => match (parse_dec(&x.rate), parse_dec(&y.rate)) {
            (Some(p), Some(q)) => Some(p == q),
            _ => {
                if x.rate == y.rate {
                    Some(true)
                } else {
                    None
                }
            }
        },
        _ => Some(false),
    }
}

fn c12_modify(tc: &TransCtx, m: &Modify, sink: &mut Sink) {
    if !tc.out.is_accepted() {
        return;
    }
    let pre = match &tc.st.book.info {
        Some(i) => i,
        None => return,
    };
    let post_book = tc.post.as_ref().unwrap();
    let post = match &post_book.info {
        Some(i) => i,
        None => return,
    };
    let asks_open = !tc.st.book.asks.is_empty();
    let bids_open = !tc.st.book.bids.is_empty();
    sink.cs(format!(
        "C12/accepted-modify/{}",
        match (asks_open, bids_open) {
            (false, false) => "empty-book",
            (true, false) => "asks-only",
            (false, true) => "bids-only",
            (true, true) => "both-sides",
        }
    ));
    if asks_open {
        match rate_eq(&pre.ask_fee_info, &post.ask_fee_info) {
            Some(true) => {}
            Some(false) => sink.v("C12", "C12/ask-fee-rate-changed-with-open-asks".into(), format!("{:?} -> {:?}", pre.ask_fee_info, post.ask_fee_info)),
            None => sink.c("no-verdict/modify/rate-outside-grammar"),
        }
        if pre.ask_required_attributes != post.ask_required_attributes {
            sink.v("C12", "C12/ask-attributes-changed-with-open-asks".into(), format!("{:?} -> {:?}", pre.ask_required_attributes, post.ask_required_attributes));
        }
    }
    if bids_open {
        match rate_eq(&pre.bid_fee_info, &post.bid_fee_info) {
            Some(true) => {}
            Some(false) => sink.v("C12", "C12/bid-fee-rate-changed-with-open-bids".into(), format!("{:?} -> {:?}", pre.bid_fee_info, post.bid_fee_info)),
            None => sink.c("no-verdict/modify/rate-outside-grammar"),
        }
        if pre.bid_required_attributes != post.bid_required_attributes {
            sink.v("C12", "C12/bid-attributes-changed-with-open-bids".into(), format!("{:?} -> {:?}", pre.bid_required_attributes, post.bid_required_attributes));
        }
    }
    if asks_open || bids_open {
        for a in &pre.approvers {
            if !post.approvers.contains(a) {
                sink.v("C12", "C12/approver-dropped-with-open-orders".into(), format!("{a} dropped: {:?} -> {:?}", pre.approvers, post.approvers));
            }
        }
    }
    if post.approvers.is_empty() && m.approvers.is_some() {
        sink.v("C12", "C12/approver-list-set-empty".into(), String::new());
    }
    if post.executors.is_empty() {
        sink.v("C12", "C12/executor-list-set-empty".into(), String::new());
    }
    // omitted fields keep their values; supplied ones are installed exactly
    let chk_list = |name: &str, req: &Option<Vec<String>>, pre: &Vec<String>, post: &Vec<String>, sink: &mut Sink| {
        match req {
            None => {
                if pre != post {
                    sink.v("C12", format!("C12/omitted-field-changed/{name}"), format!("{pre:?} -> {post:?}"));
                }
            }
            Some(v) => {
                if v != post {
                    sink.v("C12", format!("C12/supplied-field-not-installed/{name}"), format!("requested {v:?}, stored {post:?}"));
                }
            }
        }
    };
    chk_list("approvers", &m.approvers, &pre.approvers, &post.approvers, sink);
    chk_list("executors", &m.executors, &pre.executors, &post.executors, sink);
    chk_list("ask_required_attributes", &m.ask_required_attributes, &pre.ask_required_attributes, &post.ask_required_attributes, sink);
    chk_list("bid_required_attributes", &m.bid_required_attributes, &pre.bid_required_attributes, &post.bid_required_attributes, sink);
    let chk_fee = |name: &str, rate: &Option<String>, acct: &Option<String>, pre: &Option<JFee>, post: &Option<JFee>, sink: &mut Sink| {
        match (rate, acct) {
            (None, None) => {
                if pre != post {
                    sink.v("C12", format!("C12/omitted-field-changed/{name}"), format!("{pre:?} -> {post:?}"));
                }
            }
            (Some(r), Some(a)) => {
                if r.is_empty() && a.is_empty() {
                    sink.cs(format!("C12/{name}-cleared"));
                    if post.is_some() {
                        sink.v("C12", format!("C12/empty-pair-did-not-clear/{name}"), format!("{post:?}"));
                    }
                } else {
                    let exp = Some(JFee { account: a.clone(), rate: r.clone() });
                    if post != &exp {
                        sink.v("C12", format!("C12/supplied-field-not-installed/{name}"), format!("requested {exp:?}, stored {post:?}"));
                    }
                    // (whether an unparsable rate or an invalid account may be installed is not part of C12's statement)
                }
            }
            // a half-supplied pair: the statement does not say what an accepted one must do
            _ => sink.cs(format!("no-verdict/modify/half-supplied-{name}-pair-accepted")),
        }
    };
    chk_fee("ask_fee", &m.ask_fee_rate, &m.ask_fee_account, &pre.ask_fee_info, &post.ask_fee_info, sink);
    chk_fee("bid_fee", &m.bid_fee_rate, &m.bid_fee_account, &pre.bid_fee_info, &post.bid_fee_info, sink);
    // C05: the role lists are the configured ones (what accepted configuration requests installed)
    if let Some(v) = &m.executors {
        if v != &post.executors {
            sink.v("C05", "C05/modify_contract/executor-list-not-as-configured".into(), format!("accepted request installs {v:?}, stored {:?}", post.executors));
        }
    }
    if let Some(v) = &m.approvers {
        if v != &post.approvers {
            sink.v("C05", "C05/modify_contract/approver-list-not-as-configured".into(), format!("accepted request installs {v:?}, stored {:?}", post.approvers));
        }
    }
    // the book is untouched by a configuration change (reported under C11)
    if tc.st.book.asks != post_book.asks || tc.st.book.bids != post_book.bids {
        sink.v("C11", "C11/frame/modify_contract/book-changed".into(), String::new());
    }
}

// =============================================================================================
// C17 response attributes

fn attr<'a>(a: &'a Accepted, k: &str) -> Option<&'a str> {
    let mut it = a.attrs.iter().filter(|x| x.key == k);
    let first = it.next().map(|x| x.value.as_str());
    first
}

#[derive(Clone, Debug, PartialEq, Eq, Default)]
pub struct Shadow {
    /// ask id -> (remaining size, approval state: "plain" | "pending" | "ready")
    pub asks: BTreeMap<String, (u128, &'static str)>,
    pub bids: BTreeMap<String, u128>,
}

pub fn shadow_of(b: &Book) -> Shadow {
    Shadow {
        asks: b.asks.iter().map(|(k, a)| (k.clone(), (a.size, ask_class_name(&a.class)))).collect(),
        bids: b.bids.iter().map(|(k, x)| (k.clone(), x.rem_base().unwrap_or(0))).collect(),
    }
}

fn class_from_attr(s: &str) -> Option<&'static str> {
    let v: serde_json::Value = serde_json::from_str(s).ok()?;
    if v == serde_json::json!("Basic") {
        return Some("plain");
    }
    let st = v.get("Convertible")?.get("status")?;
    if st == &serde_json::json!("PendingIssuerApproval") {
        return Some("pending");
    }
    if st.get("Ready").is_some() {
        return Some("ready");
    }
    None
}

/// Advance an attribute-driven off-chain record by one response. Err = the attributes do not
/// even let a consumer do so.
fn shadow_apply(mut s: Shadow, a: &Accepted) -> Result<Shadow, String> {
    let action = attr(a, "action").ok_or("no action attribute")?;
    let num = |k: &str| -> Result<u128, String> {
        attr(a, k).ok_or(format!("no {k} attribute"))?.parse::<u128>().map_err(|e| format!("{k}: {e}"))
    };
    let id = || attr(a, "id").map(|x| x.to_string()).ok_or("no id attribute".to_string());
    match action {
        "create_ask" => {
            let c = class_from_attr(attr(a, "class").ok_or("no class attribute")?).ok_or("class attribute not understood")?;
            s.asks.insert(id()?, (num("size")?, c));
        }
        "create_bid" => {
            s.bids.insert(id()?, num("size")?);
        }
        "approve_ask" => {
            let c = class_from_attr(attr(a, "class").ok_or("no class attribute")?).ok_or("class attribute not understood")?;
            let i = id()?;
            let e = s.asks.get_mut(&i).ok_or("approve of unknown ask")?;
            e.1 = c;
        }
        "cancel_ask" => {
            s.asks.remove(&id()?).ok_or("cancel of unknown ask")?;
        }
        "expire_ask" | "reject_ask" => {
            let i = id()?;
            let open = attr(a, "order_open").ok_or("no order_open attribute")?;
            let rs = num("reverse_size")?;
            let e = s.asks.get_mut(&i).ok_or("reversal of unknown ask")?;
            e.0 = e.0.checked_sub(rs).ok_or("reverse_size above recorded size")?;
            match open {
                "false" => {
                    s.asks.remove(&i);
                }
                "true" => {}
                o => return Err(format!("order_open = {o}")),
            }
        }
        "cancel_bid" | "expire_bid" | "reject_bid" => {
            let i = id()?;
            let open = attr(a, "order_open").ok_or("no order_open attribute")?;
            let rs = num("reverse_size")?;
            let e = s.bids.get_mut(&i).ok_or("reversal of unknown bid")?;
            *e = e.checked_sub(rs).ok_or("reverse_size above recorded size")?;
            match open {
                "false" => {
                    s.bids.remove(&i);
                }
                "true" => {}
                o => return Err(format!("order_open = {o}")),
            }
        }
        "execute" => {
            let ai = attr(a, "ask_id").ok_or("no ask_id attribute")?.to_string();
            let bi = attr(a, "bid_id").ok_or("no bid_id attribute")?.to_string();
            let sz = num("size")?;
            let e = s.asks.get_mut(&ai).ok_or("match of unknown ask")?;
            e.0 = e.0.checked_sub(sz).ok_or("size above recorded ask size")?;
            if e.0 == 0 {
                s.asks.remove(&ai);
            }
            let e = s.bids.get_mut(&bi).ok_or("match of unknown bid")?;
            *e = e.checked_sub(sz).ok_or("size above recorded bid size")?;
            if *e == 0 {
                s.bids.remove(&bi);
            }
        }
        "modify_contract" => {}
        o => return Err(format!("unknown action {o}")),
    }
    Ok(s)
}

fn c17_attributes(tc: &TransCtx, a: &Accepted, post: &Book, sink: &mut Sink) {
    let kind = tc.act.req.kind();
    if kind == "migrate" {
        return; // C17 speaks about execute responses
    }
    let book = &tc.st.book;
    sink.c("C17/responses-checked");
    match attr(a, "action") {
        Some(x) if x == kind => {}
        other => sink.v("C17", format!("C17/{kind}/action-attribute"), format!("action = {other:?}")),
    }
    let want_id = |key: &str, want: &str, sink: &mut Sink| {
        if attr(a, key) != Some(want) {
            sink.v("C17", format!("C17/{kind}/{key}-attribute"), format!("{key} = {:?}, acted on {want}", attr(a, key)));
        }
    };
    let num_attr = |key: &str| attr(a, key).and_then(|x| x.parse::<u128>().ok());
    match &tc.act.req {
        Req::CreateAsk { id, .. } | Req::ApproveAsk { id, .. } => {
            want_id("id", id, sink);
            if let Some(q) = post.asks.get(id) {
                if attr(a, "price") != Some(q.price.as_str()) {
                    sink.v("C17", format!("C17/{kind}/price-attribute"), format!("{:?} vs recorded {}", attr(a, "price"), q.price));
                }
                if num_attr("size") != Some(q.size) {
                    sink.v("C17", format!("C17/{kind}/size-attribute"), format!("{:?} vs recorded {}", attr(a, "size"), q.size));
                }
            }
        }
        Req::CreateBid { id, .. } => {
            want_id("id", id, sink);
            if let Some(q) = post.bids.get(id) {
                if attr(a, "price") != Some(q.price.as_str()) {
                    sink.v("C17", format!("C17/{kind}/price-attribute"), format!("{:?} vs recorded {}", attr(a, "price"), q.price));
                }
                if num_attr("size") != Some(q.size) {
                    sink.v("C17", format!("C17/{kind}/size-attribute"), format!("{:?} vs recorded {}", attr(a, "size"), q.size));
                }
            }
        }
        Req::CancelAsk { id } => want_id("id", id, sink),
        Req::ExpireAsk { id } | Req::RejectAsk { id, .. } => {
            want_id("id", id, sink);
            if let Some(p) = book.asks.get(id) {
                let returned: u128 = a
                    .flows
                    .iter()
                    .filter(|f| f.from == CONTRACT && f.to == p.owner && f.denom == p.base)
                    .map(|f| f.amount)
                    .sum();
                let approver_is_owner = matches!(&p.class, AskClass::Ready{approver, denom, ..} if approver == &p.owner && denom == &p.base);
                let book_delta = p.size - post.asks.get(id).map_or(0, |q| q.size.min(p.size));
                if num_attr("reverse_size") != Some(book_delta) || (!approver_is_owner && num_attr("reverse_size") != Some(returned)) {
                    sink.v("C17", format!("C17/{kind}/reverse_size-attribute"), format!("{:?} vs returned {returned} / book change {book_delta}", attr(a, "reverse_size")));
                }
                let open = post.asks.contains_key(id);
                sink.cs(format!("C17/{kind}/order_open-{open}"));
                if attr(a, "order_open") != Some(if open { "true" } else { "false" }) {
                    sink.v("C17", format!("C17/{kind}/order_open-attribute"), format!("{:?} vs on book afterwards: {open}", attr(a, "order_open")));
                }
            }
        }
        Req::CancelBid { id } | Req::ExpireBid { id } | Req::RejectBid { id, .. } => {
            want_id("id", id, sink);
            if let Some(p) = book.bids.get(id) {
                let pre_rb = p.rem_base().unwrap_or(0);
                let post_rb = post.bids.get(id).map_or(0, |q| q.rem_base().unwrap_or(0));
                let book_delta = pre_rb.saturating_sub(post_rb);
                if num_attr("reverse_size") != Some(book_delta) {
                    sink.v("C17", format!("C17/{kind}/reverse_size-attribute"), format!("{:?} vs book change {book_delta}", attr(a, "reverse_size")));
                }
                let open = post.bids.contains_key(id);
                sink.cs(format!("C17/{kind}/order_open-{open}"));
                if attr(a, "order_open") != Some(if open { "true" } else { "false" }) {
                    sink.v("C17", format!("C17/{kind}/order_open-attribute"), format!("{:?} vs on book afterwards: {open}", attr(a, "order_open")));
                }
            }
        }
        Req::Match { ask_id, bid_id, price, size } => {
            want_id("ask_id", ask_id, sink);
            want_id("bid_id", bid_id, sink);
            if let (Some(pa), Some(pb)) = (book.asks.get(ask_id), book.bids.get(bid_id)) {
                let executed = pa.size - post.asks.get(ask_id).map_or(0, |q| q.size.min(pa.size));
                if num_attr("size") != Some(executed) || executed != *size {
                    sink.v("C17", format!("C17/{kind}/size-attribute"), format!("{:?} vs executed {executed}", attr(a, "size")));
                }
                match (attr(a, "price").and_then(parse_dec), parse_dec(price)) {
                    (Some(x), Some(y)) if x == y => {}
                    (_, None) => {}
                    (x, _) => sink.v("C17", format!("C17/{kind}/price-attribute"), format!("{:?} ({x:?}) vs executed at {price}", attr(a, "price"))),
                }
                // "the reported size and execution price equal what was actually executed": the selling side was paid,
                // before the ask fee, exactly reported price x reported size (judged on the ledger, whatever the reference
                // model thinks of the request; only when the selling account plays no other part in the match)
                {
                    let seller: &str = match &pa.class {
                        AskClass::Ready { approver, .. } => approver,
                        _ => &pa.owner,
                    };
                    let fee_accts: Vec<&str> = book.info.iter().flat_map(|i| i.ask_fee_info.iter().chain(i.bid_fee_info.iter())).map(|f| f.account.as_str()).collect();
                    if seller != pb.owner && seller != CONTRACT && !fee_accts.contains(&seller) && (seller == pa.owner || pa.owner != pb.owner) {
                        if let (Some(px), Some(sz), Some(fee)) = (attr(a, "price").and_then(parse_dec), num_attr("size"), num_attr("ask_fee").or(Some(0))) {
                            let got: u128 = a.flows.iter().filter(|f| f.from == CONTRACT && f.to == seller && f.denom == pb.quote_denom).map(|f| f.amount).sum();
                            sink.c("C17/execute/paid-amount-compared-with-reported-price-and-size");
                            let want = Rat::int(sz).and_then(|s| px.mul(s));
                            let paid = Rat::int(got + fee);
                            if want.is_some() && paid.is_some() && want != paid {
                                sink.v("C17", format!("C17/{kind}/reported-price-times-size-is-not-what-the-seller-was-paid"), format!("price {:?} x size {sz} reported; seller {seller} received {got} + ask fee {fee}", attr(a, "price")));
                            }
                        }
                    }
                }
                // fees that reached the fee accounts
                let info = book.info.as_ref();
                let r = ref_match(book, &tc.act.sender, ask_id, bid_id, price, *size);
                let mut parties: Vec<&str> = vec![&pa.owner, &pb.owner];
                if let AskClass::Ready { approver, .. } = &pa.class {
                    parties.push(approver);
                }
                let askacct = info.and_then(|i| i.ask_fee_info.as_ref()).map(|f| f.account.as_str());
                let bidacct = info.and_then(|i| i.bid_fee_info.as_ref()).map(|f| f.account.as_str());
                let to = |acct: &str| -> u128 { a.flows.iter().filter(|f| f.from == CONTRACT && f.to == acct).map(|f| f.amount).sum() };
                // ask fee
                let ask_paid: Option<u128> = match askacct {
                    None => Some(0),
                    Some(acct) if !parties.contains(&acct) && Some(acct) != bidacct => Some(to(acct)),
                    Some(_) => if r.failed.is_empty() && r.unclear.is_none() { Some(r.ask_fee) } else { None },
                };
                if let Some(x) = ask_paid {
                    sink.cs(format!("C17/execute/ask_fee-{}", if x == 0 { "zero" } else { "nonzero" }));
                    if num_attr("ask_fee") != Some(x) {
                        sink.v("C17", format!("C17/{kind}/ask_fee-attribute"), format!("{:?} vs paid {x}", attr(a, "ask_fee")));
                    }
                }
                // the seller (or the approver of a ready ask) is the ask-fee account: it receives proceeds and fee, i.e. the whole executed amount
                if let Some(acct) = askacct {
                    let seller: &str = match &pa.class {
                        AskClass::Ready { approver, .. } => approver,
                        _ => &pa.owner,
                    };
                    if acct == seller && acct != pb.owner && Some(acct) != bidacct && acct != CONTRACT && r.failed.is_empty() && r.unclear.is_none() {
                        sink.c("C17/execute/seller-is-ask-fee-account");
                        let got: u128 = a.flows.iter().filter(|f| f.from == CONTRACT && f.to == acct && f.denom == pb.quote_denom).map(|f| f.amount).sum();
                        if got != r.gross {
                            sink.v("C17", format!("C17/{kind}/reported-ask-fee-not-received-by-the-selling-fee-account"), format!("ask_fee {:?} reported; {acct} is seller and fee account and received {got} of {} executed", attr(a, "ask_fee"), r.gross));
                        }
                    }
                }
                // one account for both fees: what reached it is the sum of the two reported fees
                if let (Some(acct), true) = (askacct, askacct == bidacct) {
                    if !parties.contains(&acct) && acct != CONTRACT {
                        sink.c("C17/execute/shared-fee-account");
                        if let (Some(x), Some(y)) = (num_attr("ask_fee"), num_attr("bid_fee")) {
                            if x + y != to(acct) {
                                sink.v("C17", format!("C17/{kind}/reported-fees-differ-from-what-the-fee-account-received"), format!("ask_fee {x} + bid_fee {y} reported, {} paid to {acct}", to(acct)));
                            }
                        }
                    }
                }
                let bid_paid: Option<Vec<u128>> = match bidacct {
                    None => Some(vec![0]),
                    Some(acct) if !parties.contains(&acct) && Some(acct) != askacct => Some(vec![to(acct)]),
                    Some(_) => if r.failed.is_empty() && r.unclear.is_none() { Some(r.fee_pairs.iter().map(|p| p.0).collect()) } else { None },
                };
                if let Some(xs) = bid_paid {
                    sink.cs(format!("C17/execute/bid_fee-{}", if xs.contains(&0) { "zero" } else { "nonzero" }));
                    if !num_attr("bid_fee").map_or(false, |v| xs.contains(&v)) {
                        sink.v("C17", format!("C17/{kind}/bid_fee-attribute"), format!("{:?} vs paid {xs:?}", attr(a, "bid_fee")));
                    }
                }
            }
        }
        Req::Modify(_) | Req::Migrate(_) => {}
    }
    // attribute-driven shadow book
    match shadow_apply(shadow_of(book), a) {
        Ok(s) => {
            if s != shadow_of(post) {
                sink.v("C17", format!("C17/{kind}/shadow-book-diverges"), format!("attribute-driven {s:?} vs on-chain {:?}; attrs {:?}", shadow_of(post), a.attrs));
            }
        }
        Err(e) => sink.v("C17", format!("C17/{kind}/shadow-book-cannot-follow"), format!("{e}; attrs {:?}", a.attrs)),
    }
}
