//! Closed-system environment: storage, querier, request execution and message decoding.
//! Everything the contract can observe or emit passes through here (DESIGN §2).

use ats_smart_contract::contract::{execute, instantiate, migrate, query};
use ats_smart_contract::msg::{ExecuteMsg, InstantiateMsg, MigrateMsg, QueryMsg};
use cosmwasm_std::testing::{mock_env, MockApi};
use cosmwasm_std::{
    from_slice, to_binary, Addr, Attribute, BankMsg, Coin, ContractResult, CosmosMsg, Empty,
    MessageInfo, Order, OwnedDeps, Querier, QuerierResult, QueryRequest, Record, ReplyOn, Response,
    Storage, SystemError, SystemResult,
};
use prost::Message;
use provwasm_std::shim::Any;
use provwasm_std::types::cosmos::auth::v1beta1::BaseAccount;
use provwasm_std::types::provenance::attribute::v1::{
    Attribute as PAttribute, QueryAttributesRequest, QueryAttributesResponse,
};
use provwasm_std::types::provenance::marker::v1::{
    MarkerAccount, MsgTransferRequest, QueryMarkerRequest, QueryMarkerResponse,
};
use std::collections::BTreeMap;
use std::marker::PhantomData;
use std::panic::{catch_unwind, AssertUnwindSafe};
use std::sync::Arc;

pub const CONTRACT: &str = "cosmos2contract";

/// The canonical state: the complete key/value storage of the contract, byte-exact.
#[derive(Clone, Default, Debug, PartialEq, Eq, Hash, PartialOrd, Ord)]
pub struct Store(pub BTreeMap<Vec<u8>, Vec<u8>>);

impl Storage for Store {
    fn get(&self, key: &[u8]) -> Option<Vec<u8>> {
        self.0.get(key).cloned()
    }
    fn range<'a>(
        &'a self,
        start: Option<&[u8]>,
        end: Option<&[u8]>,
        order: Order,
    ) -> Box<dyn Iterator<Item = Record> + 'a> {
        use std::ops::Bound;
        let s = start.map_or(Bound::Unbounded, |x| Bound::Included(x.to_vec()));
        let e = end.map_or(Bound::Unbounded, |x| Bound::Excluded(x.to_vec()));
        if let (Bound::Included(a), Bound::Excluded(b)) = (&s, &e) {
            if a > b {
                return Box::new(std::iter::empty());
            }
        }
        let it = self.0.range((s, e)).map(|(k, v)| (k.clone(), v.clone()));
        match order {
            Order::Ascending => Box::new(it),
            Order::Descending => Box::new(it.rev()),
        }
    }
    fn set(&mut self, key: &[u8], value: &[u8]) {
        self.0.insert(key.to_vec(), value.to_vec());
    }
    fn remove(&mut self, key: &[u8]) {
        self.0.remove(key);
    }
}

/// Marker type served for a denomination.
#[derive(Clone, Copy, Debug, PartialEq, Eq, PartialOrd, Ord, Hash)]
pub enum Marker {
    /// no marker account exists for the denomination
    None,
    /// marker_type 1 (ordinary coin marker)
    Coin,
    /// marker_type 2 (restricted)
    Restricted,
    /// marker_type 2 (restricted) whose marker account also lists required attributes
    RestrictedAttrs,
}

/// The chain's answers to the contract's queries; constant during one exploration.
#[derive(Clone, Default, Debug)]
pub struct Chain {
    pub markers: Arc<BTreeMap<String, Marker>>,
    pub attrs: Arc<BTreeMap<String, Vec<String>>>,
}

impl Chain {
    pub fn marker(&self, denom: &str) -> Marker {
        *self.markers.get(denom).unwrap_or(&Marker::None)
    }
    pub fn restricted(&self, denom: &str) -> bool {
        matches!(self.marker(denom), Marker::Restricted | Marker::RestrictedAttrs)
    }
    pub fn has_attrs(&self, addr: &str, required: &[String]) -> bool {
        let have = self.attrs.get(addr);
        required
            .iter()
            .all(|r| have.map_or(false, |h| h.iter().any(|x| x == r)))
    }
}

impl Querier for Chain {
    fn raw_query(&self, bin: &[u8]) -> QuerierResult {
        let req: QueryRequest<Empty> = match from_slice(bin) {
            Ok(r) => r,
            Err(e) => {
                return SystemResult::Err(SystemError::InvalidRequest {
                    error: e.to_string(),
                    request: bin.into(),
                })
            }
        };
        match req {
            QueryRequest::Stargate { path, data }
                if path == "/provenance.marker.v1.Query/Marker" =>
            {
                let r = match QueryMarkerRequest::decode(data.as_slice()) {
                    Ok(r) => r,
                    Err(e) => {
                        return SystemResult::Err(SystemError::InvalidRequest {
                            error: e.to_string(),
                            request: data,
                        })
                    }
                };
                let t = match self.marker(&r.id) {
                    Marker::None => {
                        return SystemResult::Ok(ContractResult::Err(format!(
                            "marker {} not found",
                            r.id
                        )))
                    }
                    Marker::Coin => 1,
                    Marker::Restricted | Marker::RestrictedAttrs => 2,
                };
                let required_attributes: Vec<String> = if self.marker(&r.id) == Marker::RestrictedAttrs { vec!["kyc.passport.pb".into()] } else { vec![] };
                let m = MarkerAccount {
                    base_account: Some(BaseAccount {
                        address: format!("marker_{}", r.id),
                        pub_key: None,
                        account_number: 1,
                        sequence: 0,
                    }),
                    manager: "".into(),
                    access_control: vec![],
                    status: 3,
                    denom: r.id.clone(),
                    supply: "1000000".into(),
                    marker_type: t,
                    supply_fixed: false,
                    allow_governance_control: true,
                    allow_forced_transfer: false,
                    required_attributes,
                };
                let resp = QueryMarkerResponse {
                    marker: Some(Any {
                        type_url: "/provenance.marker.v1.MarkerAccount".into(),
                        value: m.encode_to_vec(),
                    }),
                };
                SystemResult::Ok(ContractResult::Ok(to_binary(&resp).unwrap()))
            }
            QueryRequest::Stargate { path, data }
                if path == "/provenance.attribute.v1.Query/Attributes" =>
            {
                let r = match QueryAttributesRequest::decode(data.as_slice()) {
                    Ok(r) => r,
                    Err(e) => {
                        return SystemResult::Err(SystemError::InvalidRequest {
                            error: e.to_string(),
                            request: data,
                        })
                    }
                };
                let attributes = self
                    .attrs
                    .get(&r.account)
                    .map(|v| {
                        v.iter()
                            .map(|n| PAttribute {
                                name: n.clone(),
                                value: b"v".to_vec(),
                                attribute_type: 4,
                                address: r.account.clone(),
                            })
                            .collect()
                    })
                    .unwrap_or_default();
                let resp = QueryAttributesResponse {
                    account: r.account,
                    attributes,
                    pagination: None,
                };
                SystemResult::Ok(ContractResult::Ok(to_binary(&resp).unwrap()))
            }
            QueryRequest::Stargate { path, .. } => {
                SystemResult::Err(SystemError::UnsupportedRequest { kind: path })
            }
            _ => SystemResult::Err(SystemError::UnsupportedRequest {
                kind: "non-stargate".into(),
            }),
        }
    }
}

fn deps(store: Store, chain: &Chain) -> OwnedDeps<Store, MockApi, Chain, Empty> {
    OwnedDeps {
        storage: store,
        api: MockApi::default(),
        querier: chain.clone(),
        custom_query_type: PhantomData,
    }
}

fn info(sender: &str, funds: &[Coin]) -> MessageInfo {
    MessageInfo {
        sender: Addr::unchecked(sender),
        funds: funds.to_vec(),
    }
}

/// How funds moved.
#[derive(Clone, Debug, PartialEq, Eq)]
pub enum FlowKind {
    /// funds attached to the request (bank, sender -> contract)
    Attached,
    /// BankMsg::Send emitted by the contract
    Bank,
    /// MsgTransferRequest emitted by the contract
    MarkerTransfer { administrator: String },
}

#[derive(Clone, Debug, PartialEq, Eq)]
pub struct Flow {
    pub kind: FlowKind,
    pub from: String,
    pub to: String,
    pub denom: String,
    pub amount: u128,
}

/// Result of an accepted request.
#[derive(Clone, Debug)]
pub struct Accepted {
    pub store: Store,
    pub attrs: Vec<Attribute>,
    /// attached funds first, then one entry per coin moved by the response messages, in order
    pub flows: Vec<Flow>,
    /// messages that are not a plain bank send / marker transfer, or malformed ones (C10)
    pub bad_msgs: Vec<String>,
    /// number of response messages
    pub n_msgs: usize,
    /// number of coins per bank send message (C10: must be exactly one)
    pub bank_coin_counts: Vec<usize>,
    pub events: usize,
    pub has_data: bool,
}

impl Accepted {
    /// A response with a zero-amount movement cannot be delivered: the chain rejects it and
    /// the whole transaction fails.
    pub fn deliverable(&self) -> bool {
        self.bad_msgs.is_empty()
            && self
                .flows
                .iter()
                .all(|f| f.kind == FlowKind::Attached || f.amount > 0)
    }
}

#[derive(Clone, Debug)]
pub enum Outcome {
    /// the contract returned an error (message kept for statistics)
    Refused(String),
    /// the contract panicked: aborted transaction, rolled back
    Aborted,
    Accepted(Box<Accepted>),
}

impl Outcome {
    pub fn accepted(&self) -> Option<&Accepted> {
        match self {
            Outcome::Accepted(a) => Some(a),
            _ => None,
        }
    }
    pub fn is_accepted(&self) -> bool {
        matches!(self, Outcome::Accepted(_))
    }
    pub fn short(&self) -> String {
        match self {
            Outcome::Refused(e) => format!("refused: {e}"),
            Outcome::Aborted => "aborted (panic)".into(),
            Outcome::Accepted(_) => "accepted".into(),
        }
    }
}

fn decode_response(sender: &str, funds: &[Coin], store: Store, r: Response) -> Accepted {
    let mut flows = vec![];
    for c in funds {
        flows.push(Flow {
            kind: FlowKind::Attached,
            from: sender.to_string(),
            to: CONTRACT.to_string(),
            denom: c.denom.clone(),
            amount: c.amount.u128(),
        });
    }
    let mut bad = vec![];
    let mut bank_coin_counts = vec![];
    for (i, m) in r.messages.iter().enumerate() {
        if m.reply_on != ReplyOn::Never || m.gas_limit.is_some() {
            bad.push(format!("message {i}: reply hook / gas limit set"));
        }
        match &m.msg {
            CosmosMsg::Bank(BankMsg::Send { to_address, amount }) => {
                bank_coin_counts.push(amount.len());
                if amount.is_empty() {
                    bad.push(format!("message {i}: bank send without coins"));
                }
                for c in amount {
                    flows.push(Flow {
                        kind: FlowKind::Bank,
                        from: CONTRACT.to_string(),
                        to: to_address.clone(),
                        denom: c.denom.clone(),
                        amount: c.amount.u128(),
                    });
                }
            }
            CosmosMsg::Stargate { type_url, value } => {
                if type_url != "/provenance.marker.v1.MsgTransferRequest" {
                    bad.push(format!("message {i}: stargate {type_url}"));
                    continue;
                }
                match MsgTransferRequest::decode(value.as_slice()) {
                    Ok(t) => match &t.amount {
                        Some(c) => match c.amount.parse::<u128>() {
                            Ok(a) => flows.push(Flow {
                                kind: FlowKind::MarkerTransfer {
                                    administrator: t.administrator.clone(),
                                },
                                from: t.from_address.clone(),
                                to: t.to_address.clone(),
                                denom: c.denom.clone(),
                                amount: a,
                            }),
                            Err(_) => bad.push(format!(
                                "message {i}: marker transfer amount {:?} unparsable",
                                c.amount
                            )),
                        },
                        None => bad.push(format!("message {i}: marker transfer without amount")),
                    },
                    Err(e) => bad.push(format!("message {i}: undecodable transfer: {e}")),
                }
            }
            other => bad.push(format!("message {i}: unexpected kind {other:?}")),
        }
    }
    Accepted {
        store,
        attrs: r.attributes,
        flows,
        bad_msgs: bad,
        n_msgs: r.messages.len(),
        bank_coin_counts,
        events: r.events.len(),
        has_data: r.data.is_some(),
    }
}

/// Execute one request on a copy of `store`. `Err`/panic leave the state unchanged (rollback).
pub fn step(store: &Store, chain: &Chain, sender: &str, funds: &[Coin], msg: &ExecuteMsg) -> Outcome {
    let mut d = deps(store.clone(), chain);
    let r = catch_unwind(AssertUnwindSafe(|| {
        execute(d.as_mut(), mock_env(), info(sender, funds), msg.clone())
    }));
    match r {
        Err(_) => Outcome::Aborted,
        Ok(Err(e)) => Outcome::Refused(e.to_string()),
        Ok(Ok(resp)) => Outcome::Accepted(Box::new(decode_response(sender, funds, d.storage, resp))),
    }
}

pub fn do_instantiate(store: &Store, chain: &Chain, msg: &InstantiateMsg) -> Outcome {
    let mut d = deps(store.clone(), chain);
    let r = catch_unwind(AssertUnwindSafe(|| {
        instantiate(d.as_mut(), mock_env(), info("admin", &[]), msg.clone())
    }));
    match r {
        Err(_) => Outcome::Aborted,
        Ok(Err(e)) => Outcome::Refused(e.to_string()),
        Ok(Ok(resp)) => Outcome::Accepted(Box::new(decode_response("admin", &[], d.storage, resp))),
    }
}

pub fn do_migrate(store: &Store, chain: &Chain, msg: &MigrateMsg) -> Outcome {
    let mut d = deps(store.clone(), chain);
    let r = catch_unwind(AssertUnwindSafe(|| {
        migrate(d.as_mut(), mock_env(), msg.clone())
    }));
    match r {
        Err(_) => Outcome::Aborted,
        Ok(Err(e)) => Outcome::Refused(e.to_string()),
        Ok(Ok(resp)) => Outcome::Accepted(Box::new(decode_response(CONTRACT, &[], d.storage, resp))),
    }
}

/// Result of a query: the store afterwards (must be identical), and the answer.
#[derive(Debug)]
pub enum QueryOutcome {
    Aborted,
    Err(String),
    Ok(Vec<u8>),
}

pub fn do_query(store: &Store, chain: &Chain, msg: &QueryMsg) -> (Store, QueryOutcome) {
    let d = deps(store.clone(), chain);
    let r = catch_unwind(AssertUnwindSafe(|| {
        query(d.as_ref(), mock_env(), msg.clone())
    }));
    let out = match r {
        Err(_) => QueryOutcome::Aborted,
        Ok(Err(e)) => QueryOutcome::Err(e.to_string()),
        Ok(Ok(b)) => QueryOutcome::Ok(b.0),
    };
    (d.storage, out)
}

/// Parse a request the way the chain delivers it: JSON bytes through the wasm JSON decoder.
pub fn parse_execute(json: &str) -> Result<ExecuteMsg, String> {
    from_slice::<ExecuteMsg>(json.as_bytes()).map_err(|e| e.to_string())
}
pub fn parse_instantiate(json: &str) -> Result<InstantiateMsg, String> {
    from_slice::<InstantiateMsg>(json.as_bytes()).map_err(|e| e.to_string())
}
pub fn parse_migrate(json: &str) -> Result<MigrateMsg, String> {
    from_slice::<MigrateMsg>(json.as_bytes()).map_err(|e| e.to_string())
}
pub fn parse_query(json: &str) -> Result<QueryMsg, String> {
    from_slice::<QueryMsg>(json.as_bytes()).map_err(|e| e.to_string())
}
