//! `./check selftest`: engine cross-check against stateright, determinism, reference-model sanity.

use crate::catalogue::{menu_p1, scen};
use crate::chain::{step, Outcome, Store};
use crate::engine::{explore, initial_store, Caps};
use crate::refmodel::*;
use crate::scenario::{Act, Cfg};
use stateright::{Checker, Model, Property};

struct SrModel {
    s0: Store,
    acts: Vec<Act>,
    chain: crate::chain::Chain,
}

impl Model for SrModel {
    type State = Store;
    type Action = usize;
    fn init_states(&self) -> Vec<Store> {
        vec![self.s0.clone()]
    }
    fn actions(&self, _s: &Store, a: &mut Vec<usize>) {
        a.extend(0..self.acts.len());
    }
    fn next_state(&self, s: &Store, i: usize) -> Option<Store> {
        let a = &self.acts[i];
        match crate::scenario::step_act(s, &self.chain, a) {
            Outcome::Accepted(x) => Some(x.store),
            _ => None,
        }
    }
    fn properties(&self) -> Vec<Property<Self>> {
        vec![Property::always("true", |_, _| true)]
    }
}

pub fn run() -> i32 {
    let mut ok = true;
    // 1. reference model sanity
    let checks: Vec<(&str, bool)> = vec![
        ("parse 1.50 = 3/2", parse_dec("1.50") == Rat::new(3, 2)),
        ("0.25 x 6 rounds half away to 2", parse_dec("0.25").unwrap().mul(Rat::int(6).unwrap()).unwrap().round_half_away() == Some(2)),
        ("0.25 x 5 = 1.25 rounds to 1", parse_dec("0.25").unwrap().mul(Rat::int(5).unwrap()).unwrap().round_half_away() == Some(1)),
        ("grammar rejects '2.', '.5', '+2', '', '1e1'", ["2.", ".5", "+2", "", "1e1", "1_0"].iter().all(|s| parse_dec(s).is_none())),
        ("nearest(5/2) = {3,2}", Rat::new(5, 2).unwrap().nearest() == Some(vec![3, 2])),
        ("nearest(7/3) = {2}", Rat::new(7, 3).unwrap().nearest() == Some(vec![2])),
        ("1.50 within precision 1", within_precision(parse_dec("1.50").unwrap(), 1)),
        ("1.55 not within precision 1", !within_precision(parse_dec("1.55").unwrap(), 1)),
        ("canonical uuid", is_canonical_uuid("ab5f5a62-f6fc-46d1-aa84-51ccc51ec367") && !is_canonical_uuid("AB5F5A62-F6FC-46D1-AA84-51CCC51EC367") && !is_canonical_uuid("ab5f5a62f6fc46d1aa8451ccc51ec367")),
        ("address rule", valid_addr("exec") && !valid_addr("X") && !valid_addr("EXEC") && !valid_addr("")),
    ];
    for (n, r) in checks {
        println!("  refmodel: {n}: {}", if r { "ok" } else { "FAILED" });
        ok &= r;
    }
    // 2. engine vs stateright on a mid-sized scenario
    let sc = scen("B21/P1/F1/R0", Cfg::new(0, 2, ("0.25", "0.25"), "R0"), menu_p1(2, 1), vec![]);
    let ex1 = explore(&sc, &[], &Caps::default()).expect("explore");
    let ex2 = explore(&sc, &[], &Caps::default()).expect("explore");
    println!("  engine: {} states, {} L-transitions, {} accepted, depth {}, digest {:016x}", ex1.stats.states, ex1.stats.l_transitions, ex1.stats.accepted, ex1.stats.depth, ex1.stats.digest);
    if ex1.stats.digest != ex2.stats.digest || ex1.stats.states != ex2.stats.states {
        println!("  determinism: FAILED (digest {:016x} vs {:016x})", ex1.stats.digest, ex2.stats.digest);
        ok = false;
    } else {
        println!("  determinism: two runs give identical state counts and transition digests: ok");
    }
    let m = SrModel { s0: initial_store(&sc).unwrap(), acts: sc.l.clone(), chain: sc.cfg.chain.clone() };
    let c = m.checker().threads(crate::engine::threads()).spawn_bfs().join();
    println!("  stateright: unique {} generated {} max depth {}", c.unique_state_count(), c.state_count(), c.max_depth());
    if c.unique_state_count() != ex1.stats.states {
        println!("  cross-check: FAILED: unique state counts differ");
        ok = false;
    } else if c.state_count() as u64 != ex1.stats.accepted + 1 {
        println!("  cross-check: FAILED: stateright generated {} states, engine accepted {} L-transitions (+1 initial)", c.state_count(), ex1.stats.accepted);
        ok = false;
    } else {
        println!("  cross-check: unique states and generated = accepted + 1 agree: ok");
    }
    // 3. a shortest path replays to the same state
    let last = ex1.states.len() - 1;
    let mut s = ex1.states[0].clone();
    for a in ex1.path(last) {
        let act = &sc.l[a as usize];
        if let Outcome::Accepted(x) = crate::scenario::step_act(&s, &sc.cfg.chain, act) {
            s = x.store;
        }
    }
    if s != ex1.states[last] {
        println!("  path replay: FAILED");
        ok = false;
    } else {
        println!("  path replay: the recorded path to the last state reproduces it: ok");
    }
    if ok {
        println!("SELFTEST OK");
        0
    } else {
        println!("SELFTEST FAILED");
        2
    }
}
