//! Reference model (oracle side, DESIGN §4): exact arithmetic, book / config views decoded
//! from raw storage with the harness's own serde types. Never feeds the search.

use crate::chain::Store;
use serde::Deserialize;
use std::collections::BTreeMap;

// ---------------------------------------------------------------------------------------------
// exact rationals on i128 (alphabets keep every intermediate far below 2^127; overflow => None)

fn gcd(a: i128, b: i128) -> i128 {
    let (mut a, mut b) = (a.abs(), b.abs());
    while b != 0 {
        let t = a % b;
        a = b;
        b = t;
    }
    a
}

#[derive(Clone, Copy, Debug, PartialEq, Eq)]
pub struct Rat {
    pub n: i128,
    pub d: i128, // > 0
}

impl Rat {
    pub fn new(n: i128, d: i128) -> Option<Rat> {
        if d == 0 {
            return None;
        }
        let g = gcd(n, d).max(1);
        let (mut n, mut d) = (n / g, d / g);
        if d < 0 {
            n = -n;
            d = -d;
        }
        Some(Rat { n, d })
    }
    pub fn int(n: u128) -> Option<Rat> {
        i128::try_from(n).ok().map(|n| Rat { n, d: 1 })
    }
    pub fn mul(self, o: Rat) -> Option<Rat> {
        // cross-reduce first to keep intermediates small
        let g1 = gcd(self.n, o.d).max(1);
        let g2 = gcd(o.n, self.d).max(1);
        let n = (self.n / g1).checked_mul(o.n / g2)?;
        let d = (self.d / g2).checked_mul(o.d / g1)?;
        Rat::new(n, d)
    }
    pub fn sub(self, o: Rat) -> Option<Rat> {
        let n = self
            .n
            .checked_mul(o.d)?
            .checked_sub(o.n.checked_mul(self.d)?)?;
        Rat::new(n, self.d.checked_mul(o.d)?)
    }
    pub fn is_int(self) -> bool {
        self.d == 1
    }
    pub fn is_pos(self) -> bool {
        self.n > 0
    }
    pub fn to_u128(self) -> Option<u128> {
        if self.d == 1 && self.n >= 0 {
            Some(self.n as u128)
        } else {
            None
        }
    }
    pub fn cmp(self, o: Rat) -> Option<std::cmp::Ordering> {
        Some(self.n.checked_mul(o.d)?.cmp(&o.n.checked_mul(self.d)?))
    }
    /// round half away from zero (non-negative values only in this model)
    pub fn round_half_away(self) -> Option<u128> {
        if self.n < 0 {
            return None;
        }
        let q = self.n / self.d;
        let r = self.n % self.d;
        let up = r.checked_mul(2)? >= self.d;
        Some((q + if up { 1 } else { 0 }) as u128)
    }
    pub fn is_half_tie(self) -> bool {
        self.n >= 0 && (self.n % self.d) * 2 == self.d
    }
    /// acceptable integer values of a pro-rata quotient: half-away rounding, and the next lower
    /// unit only when the exact value is a half-unit tie (C09's stated leeway).
    pub fn nearest(self) -> Option<Vec<u128>> {
        let r = self.round_half_away()?;
        if self.is_half_tie() && r > 0 {
            Some(vec![r, r - 1])
        } else {
            Some(vec![r])
        }
    }
}

// ---------------------------------------------------------------------------------------------
// 256-bit helpers for the one quotient whose numerator leaves i128: fee * unspent / quote

/// (hi, lo) of a * b
fn mul_u128(a: u128, b: u128) -> (u128, u128) {
    let (a1, a0) = (a >> 64, a & u64::MAX as u128);
    let (b1, b0) = (b >> 64, b & u64::MAX as u128);
    let p00 = a0 * b0;
    let p01 = a0 * b1;
    let p10 = a1 * b0;
    let p11 = a1 * b1;
    let mid = (p00 >> 64) + (p01 & u64::MAX as u128) + (p10 & u64::MAX as u128);
    let lo = (p00 & u64::MAX as u128) | (mid << 64);
    let hi = p11 + (p01 >> 64) + (p10 >> 64) + (mid >> 64);
    (hi, lo)
}

/// floor((hi, lo) / d) and remainder, by binary long division; None if the quotient exceeds u128
fn div_256(hi: u128, lo: u128, d: u128) -> Option<(u128, u128)> {
    if d == 0 || hi >= d {
        return None;
    }
    let mut rem: u128 = hi;
    let mut q: u128 = 0;
    for i in (0..128).rev() {
        let carry = rem >> 127;
        rem = (rem << 1) | ((lo >> i) & 1);
        if carry == 1 || rem >= d {
            rem = rem.wrapping_sub(d);
            q |= 1 << i;
        }
    }
    Some((q, rem))
}

/// acceptable integer values of amount * part / whole: half-away rounding, and the next lower unit
/// only on an exact half-unit tie — in exact 256-bit arithmetic
pub fn pro_rata_nearest(amount: u128, part: u128, whole: u128) -> Option<Vec<u128>> {
    let (hi, lo) = mul_u128(amount, part);
    let (q, rem) = div_256(hi, lo, whole)?;
    // compare 2 * rem with whole without overflow
    let twice_ge = rem >= whole - rem;
    let tie = rem == whole - rem;
    let r = if twice_ge { q.checked_add(1)? } else { q };
    if tie && r > 0 {
        Some(vec![r, r - 1])
    } else {
        Some(vec![r])
    }
}

pub fn pro_rata_is_tie(amount: u128, part: u128, whole: u128) -> bool {
    let (hi, lo) = mul_u128(amount, part);
    match div_256(hi, lo, whole) {
        Some((_, rem)) => rem == whole - rem,
        None => false,
    }
}

/// Parse the unambiguous decimal grammar `-?digits(.digits)?`. Anything else => None
/// (the alphabets contain no string whose parse is a matter of taste).
pub fn parse_dec(s: &str) -> Option<Rat> {
    let (neg, t) = match s.strip_prefix('-') {
        Some(r) => (true, r),
        None => (false, s),
    };
    let (a, b) = match t.split_once('.') {
        Some((a, b)) => {
            if b.is_empty() {
                return None;
            }
            (a, b)
        }
        None => (t, ""),
    };
    if a.is_empty()
        || !a.bytes().all(|c| c.is_ascii_digit())
        || !b.bytes().all(|c| c.is_ascii_digit())
    {
        return None;
    }
    if a.len() + b.len() > 36 {
        return None;
    }
    let mut n: i128 = 0;
    for c in a.bytes().chain(b.bytes()) {
        n = n.checked_mul(10)?.checked_add((c - b'0') as i128)?;
    }
    let d = 10i128.checked_pow(b.len() as u32)?;
    Rat::new(if neg { -n } else { n }, d)
}

/// Is the string one whose meaning is beyond dispute (either clearly a decimal of the grammar
/// above or clearly not a number at all)? Used to keep oracles silent on matters of taste.
pub fn dec_is_clear(s: &str) -> bool {
    parse_dec(s).is_some()
        || s.is_empty()
        || s.bytes().all(|c| c.is_ascii_alphabetic())
}

/// price within `precision` decimals <=> price * 10^precision is an integer
pub fn within_precision(p: Rat, precision: u32) -> bool {
    match 10i128.checked_pow(precision) {
        Some(s) => s % p.d == 0,
        None => false,
    }
}

pub fn is_canonical_uuid(id: &str) -> bool {
    let b = id.as_bytes();
    if b.len() != 36 {
        return false;
    }
    for (i, c) in b.iter().enumerate() {
        let dash = matches!(i, 8 | 13 | 18 | 23);
        if dash {
            if *c != b'-' {
                return false;
            }
        } else if !(c.is_ascii_digit() || (b'a'..=b'f').contains(c)) {
            return false;
        }
    }
    true
}

/// 32 hex digits, with or without hyphens in the canonical places, either case: the forms the
/// exit paths are documented to accept. (Other forms the uuid parser takes — braces, urn: — are
/// not in any alphabet.)
pub fn is_loose_uuid(id: &str) -> bool {
    let lower = id.to_ascii_lowercase();
    if is_canonical_uuid(&lower) {
        return true;
    }
    lower.len() == 32 && lower.bytes().all(|c| c.is_ascii_hexdigit())
}

pub fn valid_addr(a: &str) -> bool {
    a.len() >= 3 && a.len() <= 90 && a.to_lowercase() == a
}

// ---------------------------------------------------------------------------------------------
// storage views

pub const ASK_PREFIX: &[u8] = b"\x00\x03ask";
pub const BID_PREFIX: &[u8] = b"\x00\x03bid";
pub const KEY_INFO: &[u8] = b"contract_info";
pub const KEY_VERSION: &[u8] = b"version_info";

pub fn ask_key(id: &str) -> Vec<u8> {
    let mut k = ASK_PREFIX.to_vec();
    k.extend_from_slice(id.as_bytes());
    k
}
pub fn bid_key(id: &str) -> Vec<u8> {
    let mut k = BID_PREFIX.to_vec();
    k.extend_from_slice(id.as_bytes());
    k
}

#[derive(Deserialize, Clone, Debug, PartialEq, Eq)]
pub struct JCoin {
    pub denom: String,
    pub amount: String,
}
impl JCoin {
    pub fn amt(&self) -> u128 {
        self.amount.parse().unwrap_or(u128::MAX)
    }
}

#[derive(Deserialize, Clone, Debug, PartialEq, Eq)]
pub enum JStatus {
    PendingIssuerApproval,
    Ready { approver: String, converted_base: JCoin },
}
#[derive(Deserialize, Clone, Debug, PartialEq, Eq)]
pub enum JClass {
    Basic,
    Convertible { status: JStatus },
}

#[derive(Deserialize, Clone, Debug, PartialEq, Eq)]
pub struct JAsk {
    pub id: String,
    pub owner: String,
    pub class: JClass,
    pub base: String,
    pub quote: String,
    pub price: String,
    pub size: String,
}

#[derive(Deserialize, Clone, Debug, PartialEq, Eq)]
pub struct JBid {
    pub base: JCoin,
    pub accumulated_base: String,
    pub accumulated_quote: String,
    pub accumulated_fee: String,
    pub fee: Option<JCoin>,
    pub id: String,
    pub owner: String,
    pub price: String,
    pub quote: JCoin,
}

#[derive(Deserialize, Clone, Debug, PartialEq, Eq)]
pub struct JFee {
    pub account: String,
    pub rate: String,
}

#[derive(Deserialize, Clone, Debug, PartialEq, Eq)]
pub struct JInfo {
    pub name: String,
    pub bind_name: String,
    pub base_denom: String,
    pub convertible_base_denoms: Vec<String>,
    pub supported_quote_denoms: Vec<String>,
    pub approvers: Vec<String>,
    pub executors: Vec<String>,
    pub ask_fee_info: Option<JFee>,
    pub bid_fee_info: Option<JFee>,
    pub ask_required_attributes: Vec<String>,
    pub bid_required_attributes: Vec<String>,
    pub price_precision: String,
    pub size_increment: String,
}
impl JInfo {
    pub fn precision(&self) -> u32 {
        self.price_precision.parse().unwrap_or(u32::MAX)
    }
    pub fn increment(&self) -> u128 {
        self.size_increment.parse().unwrap_or(0)
    }
    pub fn is_executor(&self, a: &str) -> bool {
        self.executors.iter().any(|x| x == a)
    }
    pub fn is_approver(&self, a: &str) -> bool {
        self.approvers.iter().any(|x| x == a)
    }
}

#[derive(Deserialize, Clone, Debug, PartialEq, Eq)]
pub struct JVersion {
    pub definition: String,
    pub version: String,
}

#[derive(Clone, Debug, PartialEq, Eq)]
pub enum AskClass {
    Basic,
    Pending,
    Ready { approver: String, denom: String, amount: u128 },
}

#[derive(Clone, Debug, PartialEq, Eq)]
pub struct RefAsk {
    /// id part of the storage key
    pub key: String,
    pub id: String,
    pub owner: String,
    pub base: String,
    pub quote: String,
    pub price: String,
    pub size: u128,
    pub class: AskClass,
}

#[derive(Clone, Debug, PartialEq, Eq)]
pub struct RefBid {
    pub key: String,
    pub id: String,
    pub owner: String,
    pub base_denom: String,
    pub size: u128,
    pub price: String,
    pub quote_denom: String,
    pub quote: u128,
    pub fee: Option<(String, u128)>,
    pub acc_base: u128,
    pub acc_quote: u128,
    pub acc_fee: u128,
}

impl RefBid {
    pub fn fee_amt(&self) -> u128 {
        self.fee.as_ref().map_or(0, |f| f.1)
    }
    /// remaining amounts; None when the record is internally inconsistent (accumulated > original)
    pub fn rem_base(&self) -> Option<u128> {
        self.size.checked_sub(self.acc_base)
    }
    pub fn rem_quote(&self) -> Option<u128> {
        self.quote.checked_sub(self.acc_quote)
    }
    pub fn rem_fee(&self) -> Option<u128> {
        self.fee_amt().checked_sub(self.acc_fee)
    }
}

#[derive(Clone, Debug, Default, PartialEq, Eq)]
pub struct Book {
    pub asks: BTreeMap<String, RefAsk>,
    pub bids: BTreeMap<String, RefBid>,
    pub info: Option<JInfo>,
    pub version: Option<JVersion>,
    /// entries that could not be decoded (key, reason) — always a C11 violation in a live book
    pub undecodable: Vec<(String, String)>,
    /// keys outside the four known namespaces
    pub foreign_keys: Vec<String>,
}

pub fn lossy(k: &[u8]) -> String {
    String::from_utf8_lossy(k).to_string()
}

pub fn decode_ask(key: &str, v: &[u8]) -> Result<RefAsk, String> {
    let j: JAsk = serde_json::from_slice(v).map_err(|e| e.to_string())?;
    let size = j.size.parse::<u128>().map_err(|e| e.to_string())?;
    let class = match j.class {
        JClass::Basic => AskClass::Basic,
        JClass::Convertible { status: JStatus::PendingIssuerApproval } => AskClass::Pending,
        JClass::Convertible { status: JStatus::Ready { approver, converted_base } } => {
            AskClass::Ready {
                approver,
                amount: converted_base.amount.parse::<u128>().map_err(|e| e.to_string())?,
                denom: converted_base.denom,
            }
        }
    };
    Ok(RefAsk {
        key: key.to_string(),
        id: j.id,
        owner: j.owner,
        base: j.base,
        quote: j.quote,
        price: j.price,
        size,
        class,
    })
}

pub fn decode_bid(key: &str, v: &[u8]) -> Result<RefBid, String> {
    let j: JBid = serde_json::from_slice(v).map_err(|e| e.to_string())?;
    let p = |s: &str| s.parse::<u128>().map_err(|e| e.to_string());
    Ok(RefBid {
        key: key.to_string(),
        id: j.id,
        owner: j.owner,
        size: p(&j.base.amount)?,
        base_denom: j.base.denom,
        price: j.price,
        quote: p(&j.quote.amount)?,
        quote_denom: j.quote.denom,
        fee: match j.fee {
            None => None,
            Some(c) => Some((c.denom.clone(), p(&c.amount)?)),
        },
        acc_base: p(&j.accumulated_base)?,
        acc_quote: p(&j.accumulated_quote)?,
        acc_fee: p(&j.accumulated_fee)?,
    })
}

pub fn decode_book(s: &Store) -> Book {
    let mut b = Book::default();
    for (k, v) in &s.0 {
        if let Some(id) = k.strip_prefix(ASK_PREFIX) {
            let id = lossy(id);
            match decode_ask(&id, v) {
                Ok(a) => {
                    b.asks.insert(id, a);
                }
                Err(e) => b.undecodable.push((format!("ask/{id}"), e)),
            }
        } else if let Some(id) = k.strip_prefix(BID_PREFIX) {
            let id = lossy(id);
            match decode_bid(&id, v) {
                Ok(x) => {
                    b.bids.insert(id, x);
                }
                Err(e) => b.undecodable.push((format!("bid/{id}"), e)),
            }
        } else if k == KEY_INFO {
            match serde_json::from_slice::<JInfo>(v) {
                Ok(i) => b.info = Some(i),
                Err(e) => b.undecodable.push(("contract_info".into(), e.to_string())),
            }
        } else if k == KEY_VERSION {
            match serde_json::from_slice::<JVersion>(v) {
                Ok(i) => b.version = Some(i),
                Err(e) => b.undecodable.push(("version_info".into(), e.to_string())),
            }
        } else {
            b.foreign_keys.push(lossy(k));
        }
    }
    b
}

/// What the contract owes, per denomination, as a function of the book (C01).
pub fn owed(b: &Book) -> BTreeMap<String, i128> {
    let mut m: BTreeMap<String, i128> = BTreeMap::new();
    for a in b.asks.values() {
        *m.entry(a.base.clone()).or_insert(0) += a.size as i128;
        if let AskClass::Ready { denom, amount, .. } = &a.class {
            *m.entry(denom.clone()).or_insert(0) += *amount as i128;
        }
    }
    for x in b.bids.values() {
        let q = x.quote as i128 - x.acc_quote as i128;
        *m.entry(x.quote_denom.clone()).or_insert(0) += q;
        if let Some((d, f)) = &x.fee {
            *m.entry(d.clone()).or_insert(0) += *f as i128 - x.acc_fee as i128;
        } else {
            *m.entry(x.quote_denom.clone()).or_insert(0) -= x.acc_fee as i128;
        }
    }
    m.retain(|_, v| *v != 0);
    m
}

pub fn owed_ask(a: Option<&RefAsk>) -> BTreeMap<String, i128> {
    let mut m: BTreeMap<String, i128> = BTreeMap::new();
    if let Some(a) = a {
        *m.entry(a.base.clone()).or_insert(0) += a.size as i128;
        if let AskClass::Ready { denom, amount, .. } = &a.class {
            *m.entry(denom.clone()).or_insert(0) += *amount as i128;
        }
    }
    m.retain(|_, v| *v != 0);
    m
}

pub fn owed_bid(x: Option<&RefBid>) -> BTreeMap<String, i128> {
    let mut m: BTreeMap<String, i128> = BTreeMap::new();
    if let Some(x) = x {
        *m.entry(x.quote_denom.clone()).or_insert(0) += x.quote as i128 - x.acc_quote as i128;
        let fd = x.fee.as_ref().map_or(x.quote_denom.clone(), |f| f.0.clone());
        *m.entry(fd).or_insert(0) += x.fee_amt() as i128 - x.acc_fee as i128;
    }
    m.retain(|_, v| *v != 0);
    m
}

#[cfg(test)]
mod tests {
    use super::*;
    #[test]
    fn dec() {
        assert_eq!(parse_dec("1.50"), Rat::new(3, 2));
        assert_eq!(parse_dec("0.25").unwrap().mul(Rat::int(6).unwrap()).unwrap().round_half_away(), Some(2));
        assert_eq!(parse_dec("0.25").unwrap().mul(Rat::int(5).unwrap()).unwrap().round_half_away(), Some(1));
        assert!(parse_dec("2.").is_none() && parse_dec(".5").is_none() && parse_dec("+2").is_none() && parse_dec("").is_none());
        assert_eq!(Rat::new(5, 2).unwrap().nearest(), Some(vec![3, 2]));
        assert_eq!(Rat::new(7, 3).unwrap().nearest(), Some(vec![2]));
        assert!(within_precision(parse_dec("1.50").unwrap(), 1));
        assert!(!within_precision(parse_dec("1.55").unwrap(), 1));
        assert!(is_canonical_uuid("ab5f5a62-f6fc-46d1-aa84-51ccc51ec367"));
        assert_eq!(pro_rata_nearest(3, 5, 6), Some(vec![3, 2]));
        assert_eq!(pro_rata_nearest(9, 36, 45), Some(vec![7]));
        assert_eq!(pro_rata_nearest(30000000000000000000, 2000000000000000000004, 3000000000000000000007), Some(vec![20000000000000000000]));
        assert_eq!(pro_rata_nearest(u128::MAX, u128::MAX, u128::MAX), Some(vec![u128::MAX]));
        assert!(!is_canonical_uuid("AB5F5A62-F6FC-46D1-AA84-51CCC51EC367"));
    }
}
