//! Level-synchronous parallel BFS over the real entry points, exact de-duplication, to a
//! fixpoint (DESIGN §3.3).

use crate::chain::{step, Outcome, Store};
use crate::oracles::{on_initial, on_trans, Sink, StateCtx, TransCtx};
use crate::scenario::{Act, Scenario};
use serde_json::Value;
use std::collections::hash_map::DefaultHasher;
use std::collections::{BTreeMap, HashMap};
use std::hash::{Hash, Hasher};
use std::sync::atomic::{AtomicUsize, Ordering};
use std::sync::Mutex;
use std::time::Instant;

/// Extra per-state work (exit probes, queries, migration sweeps …).
pub trait StateHook: Sync {
    fn on_state(&self, scen: &Scenario, st: &StateCtx, sink: &mut Sink);
}

#[derive(Clone, Debug)]
pub struct Caps {
    pub max_states: usize,
    pub wall_s: f64,
    pub threads: usize,
}

impl Default for Caps {
    fn default() -> Self {
        Caps { max_states: 2_500_000, wall_s: 3000.0, threads: threads() }
    }
}

pub fn threads() -> usize {
    std::env::var("VERIF_THREADS")
        .ok()
        .and_then(|s| s.parse().ok())
        .unwrap_or_else(|| std::thread::available_parallelism().map(|n| n.get()).unwrap_or(4))
}

#[derive(Clone, Debug)]
pub struct VRec {
    pub prop: &'static str,
    pub sig: String,
    pub count: u64,
    pub first_state: usize,
    /// the final step(s) after reaching `first_state`, as replay ops
    pub last: Vec<Value>,
    pub detail: String,
}

#[derive(Default, Clone, Debug)]
pub struct Stats {
    pub states: usize,
    pub l_transitions: u64,
    pub p_transitions: u64,
    pub accepted: u64,
    pub refused: u64,
    pub aborted: u64,
    pub extra_execs: u64,
    pub depth: usize,
    pub exhaustive: bool,
    pub cap: Option<String>,
    pub wall_s: f64,
    pub digest: u64,
}

pub struct Explored {
    pub states: Vec<Store>,
    pub parent: Vec<(u32, u32)>,
    pub depth_of: Vec<u32>,
    pub stats: Stats,
    pub viols: BTreeMap<String, VRec>,
    pub cov: BTreeMap<String, u64>,
}

impl Explored {
    /// L-requests leading from the initial state to state `i`
    pub fn path(&self, i: usize) -> Vec<u32> {
        let mut v = vec![];
        let mut c = i;
        while c != 0 {
            let (p, a) = self.parent[c];
            v.push(a);
            c = p as usize;
        }
        v.reverse();
        v
    }
}

/// exact de-duplication without a second copy of every state: hash -> indices into `states`,
/// membership decided by comparing the stores themselves
#[derive(Default)]
struct Seen(HashMap<u64, Vec<u32>>);

impl Seen {
    fn contains(&self, s: &Store, states: &[Store]) -> bool {
        match self.0.get(&h(s)) {
            Some(v) => v.iter().any(|i| &states[*i as usize] == s),
            None => false,
        }
    }
    fn insert(&mut self, s: &Store, idx: u32) {
        self.0.entry(h(s)).or_default().push(idx);
    }
}

struct PerState {
    succ: Vec<(u32, Store)>,
    sink: Sink,
    /// (index into sink.viols) -> final replay ops
    lasts: Vec<Vec<Value>>,
    l: u64,
    p: u64,
    acc: u64,
    refu: u64,
    abo: u64,
    digest: u64,
}

fn h<T: Hash>(t: &T) -> u64 {
    let mut s = DefaultHasher::new();
    t.hash(&mut s);
    s.finish()
}

fn run_state(scen: &Scenario, store: &Store, seen: &Seen, states: &[Store], hooks: &[&dyn StateHook], initial: bool) -> PerState {
    let st = StateCtx::new(&scen.cfg, store);
    let mut ps = PerState { succ: vec![], sink: Sink::default(), lasts: vec![], l: 0, p: 0, acc: 0, refu: 0, abo: 0, digest: 0 };
    let sh = h(store);
    if initial {
        on_initial(&st, &mut ps.sink);
        if scen.pre_migrate.is_some() {
            crate::oracles::check_carried_over(&scen.seed, &st, &mut ps.sink);
        }
        for _ in ps.lasts.len()..ps.sink.viols.len() {
            ps.lasts.push(vec![]);
        }
    }
    let mut run = |act: &Act, idx: u32, is_l: bool, ps: &mut PerState| {
        let out = crate::scenario::step_act(store, &scen.cfg.chain, act);
        let tc = TransCtx::new(&st, act, &out);
        let nv = ps.sink.viols.len();
        on_trans(&tc, &mut ps.sink);
        let violating = ps.sink.viols.len() > nv;
        for _ in ps.lasts.len()..ps.sink.viols.len() {
            ps.lasts.push(vec![act.to_replay()]);
        }
        let (cls, ph) = match &out {
            Outcome::Accepted(a) => {
                ps.acc += 1;
                (1u8, h(&a.store))
            }
            Outcome::Refused(_) => {
                ps.refu += 1;
                (2u8, 0)
            }
            Outcome::Aborted => {
                ps.abo += 1;
                (3u8, 0)
            }
        };
        ps.digest = ps.digest.wrapping_add(h(&(sh, is_l, idx, cls, ph)));
        if is_l {
            ps.l += 1;
            if let Outcome::Accepted(a) = out {
                if !seen.contains(&a.store, states) {
                    ps.succ.push((idx, a.store));
                }
            }
        } else {
            ps.p += 1;
            // a probe whose acceptance is itself a violation leads to a real, reachable state:
            // keep exploring from it so that one defect does not hide its consequences
            if violating {
                if let Outcome::Accepted(a) = out {
                    if !seen.contains(&a.store, states) {
                        ps.succ.push((scen.l.len() as u32 + idx, a.store));
                    }
                }
            }
        }
    };
    for (i, a) in scen.l.iter().enumerate() {
        run(a, i as u32, true, &mut ps);
    }
    for (i, a) in scen.p.iter().enumerate() {
        run(a, i as u32, false, &mut ps);
    }
    for hk in hooks {
        let before = ps.sink.viols.len();
        hk.on_state(scen, &st, &mut ps.sink);
        // hooks attach their own final ops through `Sink::pending_last`
        let pend = std::mem::take(&mut ps.sink.pending_last);
        for (k, _) in (before..ps.sink.viols.len()).enumerate() {
            ps.lasts.push(pend.get(k).cloned().unwrap_or_default());
        }
    }
    ps
}

pub fn initial_store(scen: &Scenario) -> Result<Store, String> {
    let init = crate::chain::parse_instantiate(&scen.cfg.instantiate_value().to_string())?;
    match crate::chain::do_instantiate(&Store::default(), &scen.cfg.chain, &init) {
        Outcome::Accepted(a) => {
            let mut s = a.store;
            for (k, v) in &scen.seed {
                s.0.insert(k.clone(), v.clone());
            }
            if let Some((ver, msg)) = &scen.pre_migrate {
                // the seeded book belongs to an earlier contract version: upgrade it first
                crate::mig::set_version(&mut s, ver);
                let m = crate::chain::parse_migrate(&msg.to_string())?;
                match crate::chain::do_migrate(&s, &scen.cfg.chain, &m) {
                    Outcome::Accepted(a) => s = a.store,
                    o => return Err(format!("SKIP: migration of the seeded book of scenario {} from version {ver} was not carried out: {}", scen.name, o.short())),
                }
            }
            Ok(s)
        }
        // the scenario's configuration is refused: nothing to explore here (C13 decides whether it should have been accepted)
        o => Err(format!("SKIP: instantiate of scenario {} was not carried out: {}", scen.name, o.short())),
    }
}

pub fn explore(scen: &Scenario, hooks: &[&dyn StateHook], caps: &Caps) -> Result<Explored, String> {
    let t0 = Instant::now();
    let s0 = initial_store(scen)?;
    let mut ex = Explored {
        states: vec![s0.clone()],
        parent: vec![(0, 0)],
        depth_of: vec![0],
        stats: Stats::default(),
        viols: BTreeMap::new(),
        cov: BTreeMap::new(),
    };
    let mut seen = Seen::default();
    seen.insert(&s0, 0);
    let mut frontier: Vec<usize> = vec![0];
    let mut depth = 0usize;
    let mut cap: Option<String> = None;
    const MAX_PROBE_SUCCESSORS: usize = 128;
    let mut probe_successors = 0usize;
    while !frontier.is_empty() {
        if t0.elapsed().as_secs_f64() > caps.wall_s {
            cap = Some(format!("wall-clock cap {} s hit at depth {depth}", caps.wall_s));
            break;
        }
        if ex.states.len() > caps.max_states {
            cap = Some(format!("state cap {} hit at depth {depth}", caps.max_states));
            break;
        }
        // process the level in parallel; results are indexed so that merging is deterministic
        let n = frontier.len();
        let results: Vec<Mutex<Option<PerState>>> = (0..n).map(|_| Mutex::new(None)).collect();
        let next = AtomicUsize::new(0);
        let nthreads = caps.threads.min(n).max(1);
        std::thread::scope(|sc| {
            for _ in 0..nthreads {
                sc.spawn(|| loop {
                    let i = next.fetch_add(1, Ordering::Relaxed);
                    if i >= n {
                        break;
                    }
                    let si = frontier[i];
                    let r = run_state(scen, &ex.states[si], &seen, &ex.states, hooks, si == 0);
                    *results[i].lock().unwrap() = Some(r);
                });
            }
        });
        let mut new_frontier = vec![];
        for (i, cell) in results.into_iter().enumerate() {
            let r = cell.into_inner().unwrap().expect("worker result missing");
            let si = frontier[i];
            ex.stats.l_transitions += r.l;
            ex.stats.p_transitions += r.p;
            ex.stats.accepted += r.acc;
            ex.stats.refused += r.refu;
            ex.stats.aborted += r.abo;
            ex.stats.extra_execs += r.sink.extra_execs;
            ex.stats.digest = ex.stats.digest.wrapping_add(r.digest);
            for (k, v) in r.sink.cov {
                *ex.cov.entry(k).or_insert(0) += v;
            }
            for (vi, v) in r.sink.viols.into_iter().enumerate() {
                let e = ex.viols.entry(v.sig.clone()).or_insert_with(|| VRec {
                    prop: v.prop,
                    sig: v.sig.clone(),
                    count: 0,
                    first_state: si,
                    last: r.lasts.get(vi).cloned().unwrap_or_default(),
                    detail: v.detail.clone(),
                });
                e.count += 1;
            }
            for (ai, st) in r.succ {
                // successors of *violating probes* are explored so that a defect shows its consequences, but only a
                // bounded number of them per scenario: on a broken tree a probe that violates from every state (a
                // one-unit step on a large order, say) would otherwise unroll until a cap stops it
                if ai as usize >= scen.l.len() {
                    if probe_successors >= MAX_PROBE_SUCCESSORS {
                        cap.get_or_insert_with(|| format!("successors of violating probes limited to {MAX_PROBE_SUCCESSORS} (violations were found)"));
                        continue;
                    }
                    probe_successors += 1;
                }
                if !seen.contains(&st, &ex.states) {
                    let id = ex.states.len() as u32;
                    seen.insert(&st, id);
                    ex.states.push(st);
                    ex.parent.push((si as u32, ai));
                    ex.depth_of.push(depth as u32 + 1);
                    new_frontier.push(id as usize);
                }
            }
        }
        frontier = new_frontier;
        depth += 1;
    }
    ex.stats.states = ex.states.len();
    ex.stats.depth = depth;
    ex.stats.exhaustive = cap.is_none();
    ex.stats.cap = cap;
    ex.stats.wall_s = t0.elapsed().as_secs_f64();
    Ok(ex)
}
