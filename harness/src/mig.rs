//! C14 (migration: version-gated, preserves the book, idempotent) and
//! C15 (bid format conversion preserves every bid's remaining amounts).

use crate::catalogue::{menu_p1, scen, Tier};
use crate::chain::{do_migrate, parse_migrate, step, Outcome, Store};
use crate::engine::{explore, threads, Caps, Explored};
use crate::oracles::net_of;
use crate::refmodel::*;
use crate::scenario::{Act, Cfg, Menu, Req, Scenario};
use serde_json::{json, Value};
use std::collections::BTreeMap;
use std::sync::atomic::{AtomicUsize, Ordering};
use std::sync::Mutex;

pub const VERSIONS: [&str; 25] = [
    "<missing>", "", "abc", "1.0", "v1.0.0", "0.14.9", "0.15.0", "0.16.1", "0.16.2", "0.16.3", "0.18.2", "0.19.0", "0.19.1", "0.19.2",
    "1.0.0", "1.0.1", "2.0.0", "10.0.0", "1.0.0-rc1", "0.16.2-rc1", "0.16.2-rc.1", "0.16.1-alpha", "0.16.3-rc1", "0.19.1-rc1", "1.0.0+build5",
];

#[derive(Clone, Copy, PartialEq, Eq, Debug)]
pub enum VClass {
    Unreadable,
    Below,
    InWindow,
    AtOrAfterChange,
    /// pre-release / build metadata: the statement does not say whether these are "supported"
    Undecided,
}

fn parse_release(v: &str) -> Option<(u64, u64, u64)> {
    let parts: Vec<&str> = v.split('.').collect();
    if parts.len() != 3 {
        return None;
    }
    let mut n = [0u64; 3];
    for (i, p) in parts.iter().enumerate() {
        if p.is_empty() || !p.bytes().all(|c| c.is_ascii_digit()) || (p.len() > 1 && p.starts_with('0')) {
            return None;
        }
        n[i] = p.parse().ok()?;
    }
    Some((n[0], n[1], n[2]))
}

pub fn classify(v: &str) -> VClass {
    if v == "<missing>" {
        return VClass::Unreadable;
    }
    if let Some((triple, pre)) = v.split_once('-') {
        // semver orders X.Y.Z-pre strictly below X.Y.Z: a pre-release of the minimum (or of anything
        // below it) is older than the minimum; other pre-releases and build metadata stay undecided
        if !pre.is_empty() && !triple.contains('+') {
            if let Some(t) = parse_release(triple) {
                if t <= (0, 16, 2) {
                    return VClass::Below;
                }
            }
        }
        return VClass::Undecided;
    }
    if v.contains('+') {
        return VClass::Undecided;
    }
    match parse_release(v) {
        None => VClass::Unreadable,
        Some(t) => {
            if t < (0, 16, 2) {
                VClass::Below
            } else if t < (0, 19, 1) {
                VClass::InWindow
            } else {
                VClass::AtOrAfterChange
            }
        }
    }
}

pub fn set_version(s: &mut Store, v: &str) {
    if v == "<missing>" {
        s.0.remove(KEY_VERSION);
    } else {
        s.0.insert(KEY_VERSION.to_vec(), json!({"definition": "ats_smart_contract", "version": v}).to_string().into_bytes());
    }
}

// ---------------------------------------------------------------------------------------------
// migrate messages

#[derive(Clone, Debug, PartialEq, Eq)]
pub struct MigShape {
    pub approvers: usize,
    pub ask_pair: usize,
    pub bid_pair: usize,
    pub ask_attrs: usize,
    pub bid_attrs: usize,
}
const MDIMS: [usize; 5] = [4, 8, 8, 4, 4];

fn m_approvers(i: usize) -> Option<Vec<&'static str>> {
    [None, Some(vec![]), Some(vec!["approver3", "approver"]), Some(vec!["X"])][i].clone()
}
fn m_pair(i: usize, acct: &'static str) -> (Option<&'static str>, Option<&'static str>) {
    match i {
        0 => (None, None),
        1 => (Some("0.3"), Some(acct)),
        2 => (Some(""), Some("")),
        3 => (Some("0.3"), None),
        4 => (None, Some(acct)),
        5 => (Some("abc"), Some(acct)),
        6 => (Some("0.3"), Some("X")),
        // a rate padded with a blank: whether that is "parseable" is a matter of taste (no accept /
        // refuse verdict), but an accepted one must leave a usable configuration
        _ => (Some("0.25 "), Some(acct)),
    }
}
fn m_attrs(i: usize) -> Option<Vec<&'static str>> {
    [None, Some(vec![]), Some(vec!["kyc"]), Some(vec!["Kyc.Passport.PB", "kyc"])][i].clone()
}

impl MigShape {
    pub fn none() -> MigShape {
        MigShape { approvers: 0, ask_pair: 0, bid_pair: 0, ask_attrs: 0, bid_attrs: 0 }
    }
    fn get(&self, d: usize) -> usize {
        [self.approvers, self.ask_pair, self.bid_pair, self.ask_attrs, self.bid_attrs][d]
    }
    fn set(&mut self, d: usize, v: usize) {
        match d {
            0 => self.approvers = v,
            1 => self.ask_pair = v,
            2 => self.bid_pair = v,
            3 => self.ask_attrs = v,
            _ => self.bid_attrs = v,
        }
    }
    pub fn to_value(&self) -> Value {
        let mut o = serde_json::Map::new();
        if let Some(a) = m_approvers(self.approvers) {
            o.insert("approvers".into(), json!(a));
        }
        let (r, a) = m_pair(self.ask_pair, "askfee2");
        if let Some(r) = r {
            o.insert("ask_fee_rate".into(), json!(r));
        }
        if let Some(a) = a {
            o.insert("ask_fee_account".into(), json!(a));
        }
        let (r, a) = m_pair(self.bid_pair, "bidfee2");
        if let Some(r) = r {
            o.insert("bid_fee_rate".into(), json!(r));
        }
        if let Some(a) = a {
            o.insert("bid_fee_account".into(), json!(a));
        }
        if let Some(a) = m_attrs(self.ask_attrs) {
            o.insert("ask_required_attributes".into(), json!(a));
        }
        if let Some(a) = m_attrs(self.bid_attrs) {
            o.insert("bid_required_attributes".into(), json!(a));
        }
        Value::Object(o)
    }
    pub fn invalid(&self) -> Vec<&'static str> {
        let mut f = vec![];
        if let Some(a) = m_approvers(self.approvers) {
            if a.iter().any(|x| !valid_addr(x)) {
                f.push("invalid-approver-address");
            }
        }
        for (p, acct) in [(self.ask_pair, "askfee2"), (self.bid_pair, "bidfee2")] {
            match m_pair(p, acct) {
                (None, None) => {}
                (Some(r), Some(a)) => {
                    if !(r.is_empty() && a.is_empty()) {
                        if parse_dec(r).is_none() && dec_is_clear(r) {
                            f.push("rate-unparsable");
                        }
                        if !valid_addr(a) {
                            f.push("fee-account-invalid");
                        }
                    }
                }
                _ => f.push("fee-pair-half-supplied"),
            }
        }
        f
    }
    /// the configuration the request must produce from `old`
    pub fn undecided(&self) -> bool {
        [(self.ask_pair, "askfee2"), (self.bid_pair, "bidfee2")].iter().any(|(p, a)| match m_pair(*p, a) {
            (Some(r), Some(ac)) => !(r.is_empty() && ac.is_empty()) && parse_dec(r).is_none() && !dec_is_clear(r),
            _ => false,
        })
    }
    pub fn apply(&self, old: &Value) -> Value {
        let mut n = old.clone();
        if let Some(a) = m_approvers(self.approvers) {
            n["approvers"] = json!(a);
        }
        for (p, acct, key) in [(self.ask_pair, "askfee2", "ask_fee_info"), (self.bid_pair, "bidfee2", "bid_fee_info")] {
            if let (Some(r), Some(a)) = m_pair(p, acct) {
                n[key] = if r.is_empty() && a.is_empty() { Value::Null } else { json!({"account": a, "rate": r}) };
            }
        }
        if let Some(a) = m_attrs(self.ask_attrs) {
            n["ask_required_attributes"] = json!(a);
        }
        if let Some(a) = m_attrs(self.bid_attrs) {
            n["bid_required_attributes"] = json!(a);
        }
        n
    }
}

pub fn mig_shapes(k: usize, full: bool) -> Vec<MigShape> {
    let base = MigShape::none();
    let mut v = vec![base.clone()];
    if full {
        let mut idx = [0usize; 5];
        loop {
            let mut s = base.clone();
            for d in 0..5 {
                s.set(d, idx[d]);
            }
            if s != base {
                v.push(s);
            }
            let mut d = 0;
            loop {
                idx[d] += 1;
                if idx[d] < MDIMS[d] {
                    break;
                }
                idx[d] = 0;
                d += 1;
                if d == 5 {
                    return v;
                }
            }
        }
    }
    for d1 in 0..5 {
        for a in 1..MDIMS[d1] {
            let mut s1 = base.clone();
            s1.set(d1, a);
            v.push(s1.clone());
            if k >= 2 {
                for d2 in d1 + 1..5 {
                    for b in 1..MDIMS[d2] {
                        let mut s2 = s1.clone();
                        s2.set(d2, b);
                        v.push(s2);
                    }
                }
            }
        }
    }
    v
}

// ---------------------------------------------------------------------------------------------
// books with event-log history

/// one event of the old bid format, as stored JSON
pub fn ev_fill(base: u128, quote: u128, fee: Option<u128>, price: &str) -> Value {
    json!({"action": {"Fill": {"base": {"denom": "base", "amount": base.to_string()}, "fee": fee.map(|f| json!({"denom": "q1", "amount": f.to_string()})),
        "price": price, "quote": {"denom": "q1", "amount": quote.to_string()}}}, "block_info": {"height": 12345, "time": "1571797419879305533"}})
}
pub fn ev_refund(quote: u128, fee: Option<u128>) -> Value {
    json!({"action": {"Refund": {"fee": fee.map(|f| json!({"denom": "q1", "amount": f.to_string()})), "quote": {"denom": "q1", "amount": quote.to_string()}}},
        "block_info": {"height": 12346, "time": "1571797419879305534"}})
}
pub fn ev_reject(base: u128, quote: u128, fee: Option<u128>) -> Value {
    json!({"action": {"Reject": {"base": {"denom": "base", "amount": base.to_string()}, "fee": fee.map(|f| json!({"denom": "q1", "amount": f.to_string()})),
        "quote": {"denom": "q1", "amount": quote.to_string()}}}, "block_info": {"height": 12347, "time": "1571797419879305535"}})
}

/// reference fold over an event log: (base, quote, fee) sums
pub fn fold_log(events: &[Value]) -> (u128, u128, u128) {
    let amt = |v: &Value| -> u128 { v.get("amount").and_then(|a| a.as_str()).and_then(|s| s.parse().ok()).unwrap_or(0) };
    let mut t = (0u128, 0u128, 0u128);
    for e in events {
        let a = &e["action"];
        if let Some(f) = a.get("Fill") {
            t.0 += amt(&f["base"]);
            t.1 += amt(&f["quote"]);
            t.2 += amt(&f["fee"]);
        } else if let Some(f) = a.get("Refund") {
            t.1 += amt(&f["quote"]);
            t.2 += amt(&f["fee"]);
        } else if let Some(f) = a.get("Reject") {
            t.0 += amt(&f["base"]);
            t.1 += amt(&f["quote"]);
            t.2 += amt(&f["fee"]);
        }
    }
    t
}

/// rewrite a current-format bid as an old-format one carrying `events`
pub fn to_v2(bid_json: &[u8], events: &[Value]) -> Vec<u8> {
    let v: Value = serde_json::from_slice(bid_json).unwrap();
    json!({"base": v["base"], "events": events, "fee": v["fee"], "id": v["id"], "owner": v["owner"], "price": v["price"], "quote": v["quote"]})
        .to_string()
        .into_bytes()
}

pub struct HistBook {
    pub store: Store,
    /// bid key (raw storage key) -> event log observed along the BFS path
    pub logs: BTreeMap<Vec<u8>, Vec<Value>>,
    pub path: Vec<Value>,
}

fn acts_of<'a>(scen: &'a Scenario, ex: &Explored, i: usize) -> Vec<&'a Act> {
    ex.path(i)
        .into_iter()
        .map(|a| {
            let a = a as usize;
            if a < scen.l.len() {
                &scen.l[a]
            } else {
                &scen.p[a - scen.l.len()]
            }
        })
        .collect()
}

/// Replay the BFS path of every state and record, per open bid, the fill / refund / reject
/// events with the amounts observed (a history variable kept outside the state).
pub fn hist_books(scen: &Scenario, ex: &Explored) -> Vec<HistBook> {
    let mut out = vec![];
    for i in 0..ex.states.len() {
        let mut s = ex.states[0].clone();
        let mut logs: BTreeMap<Vec<u8>, Vec<Value>> = BTreeMap::new();
        let mut path = vec![];
        for act in acts_of(scen, ex, i) {
            let pre = decode_book(&s);
            let o = crate::scenario::step_act(&s, &scen.cfg.chain, act);
            path.push(act.to_replay());
            let a = match o {
                Outcome::Accepted(a) => a,
                _ => continue,
            };
            let post = decode_book(&a.store);
            let bidfee_acct = pre.info.as_ref().and_then(|i| i.bid_fee_info.as_ref()).map(|f| f.account.clone());
            match &act.req {
                Req::CreateBid { id, .. } => {
                    logs.insert(bid_key(id), vec![]);
                }
                Req::Match { bid_id, price, size, .. } => {
                    if let Some(pb) = pre.bids.get(bid_id) {
                        let (dq, df) = match post.bids.get(bid_id) {
                            Some(q) => (q.acc_quote - pb.acc_quote, q.acc_fee - pb.acc_fee),
                            None => (pb.rem_quote().unwrap_or(0), pb.rem_fee().unwrap_or(0)),
                        };
                        let gross = parse_dec(price).and_then(|p| p.mul(Rat::int(*size)?)).and_then(|t| t.to_u128()).unwrap_or(0);
                        let f1: u128 = match &bidfee_acct {
                            Some(acct) if *acct != pb.owner => a.flows.iter().filter(|f| f.to == *acct && f.from == crate::chain::CONTRACT).map(|f| f.amount).sum(),
                            _ => df,
                        };
                        let f1 = f1.min(df);
                        let l = logs.entry(bid_key(bid_id)).or_default();
                        l.push(ev_fill(*size, gross, if f1 > 0 { Some(f1) } else { None }, price));
                        if dq > gross {
                            let f2 = df - f1;
                            l.push(ev_refund(dq - gross, if f2 > 0 { Some(f2) } else { None }));
                        }
                    }
                }
                Req::RejectBid { id, .. } | Req::CancelBid { id } | Req::ExpireBid { id } => {
                    if let (Some(pb), Some(q)) = (pre.bids.get(id), post.bids.get(id)) {
                        let l = logs.entry(bid_key(id)).or_default();
                        l.push(ev_reject(q.acc_base - pb.acc_base, q.acc_quote - pb.acc_quote, if pb.fee.is_some() { Some(q.acc_fee - pb.acc_fee) } else { None }));
                    }
                }
                _ => {}
            }
            s = a.store;
            logs.retain(|k, _| s.0.contains_key(k));
        }
        debug_assert!(s == ex.states[i]);
        out.push(HistBook { store: ex.states[i].clone(), logs, path });
    }
    out
}

pub fn book_scenarios(tier: Tier) -> Vec<Scenario> {
    let mut v = vec![];
    let slim = |m: Menu| Menu { ask_bases: vec!["base", "conv"], ..m };
    // one book with orders under legacy un-hyphenated ids (their old-format twins keep those ids)
    v.push(crate::catalogue::with_legacy_seed(scen("B11/P1/F1/R0", Cfg::new(0, 2, ("0.25", "0.25"), "R0"), slim(Menu { prices: vec!["2"], ..menu_p1(1, 1) }), vec![])));
    // prices that are not written in their shortest form ("1.50")
    v.push(scen("B11/P2/F1/R0", Cfg::new(1, 10, ("0.25", "0.25"), "R0"), slim(Menu { prices: vec!["1.5", "1.50"], match_sizes: vec![10, 20], ..crate::catalogue::menu_p2(1, 1) }), vec![]));
    // bids that carry an explicit zero fee (their fee rounds to zero) next to bids with a real one
    v.push(crate::catalogue::with_explicit_zero_fees(scen("B11/P1/F2/R0", Cfg::new(0, 2, ("0.1", "0.1"), "R0"), slim(Menu { prices: vec!["2"], ..menu_p1(1, 1) }), vec![])));
    if tier == Tier::Quick {
        v.push(scen("B11/P1/F1/R0", Cfg::new(0, 2, ("0.25", "0.25"), "R0"), slim(menu_p1(1, 1)), vec![]));
    } else {
        v.push(scen("B12/P1/F1/R0", Cfg::new(0, 2, ("0.25", "0.25"), "R0"), slim(menu_p1(1, 2)), vec![]));
        v.push(scen("B11/P1/F2/R0", Cfg::new(0, 2, ("0.1", "0.1"), "R0"), slim(Menu { prices: vec!["2", "7"], ..menu_p1(1, 1) }), vec![]));
        v.push(scen("B11/P1/F0/R0", Cfg::new(0, 2, ("", ""), "R0"), slim(menu_p1(1, 1)), vec![]));
    }
    v
}

// ---------------------------------------------------------------------------------------------
// results

#[derive(Default)]
pub struct MigOut {
    pub migrate_calls: u64,
    pub accepted: u64,
    pub refused: u64,
    pub aborted: u64,
    pub books: u64,
    pub twins: u64,
    pub cov: BTreeMap<String, u64>,
    /// signature -> (property, count, detail, replay ops)
    pub viols: BTreeMap<String, (&'static str, u64, String, Value)>,
    pub samples: Vec<Value>,
}

impl MigOut {
    fn c(&mut self, k: &str) {
        *self.cov.entry(k.to_string()).or_insert(0) += 1;
    }
    fn v(&mut self, prop: &'static str, sig: String, detail: String, replay: Value) {
        let e = self.viols.entry(sig).or_insert((prop, 0, detail, replay));
        e.1 += 1;
    }
    pub fn merge_pub(&mut self, o: MigOut) {
        self.merge(o)
    }
    fn merge(&mut self, o: MigOut) {
        self.migrate_calls += o.migrate_calls;
        self.accepted += o.accepted;
        self.refused += o.refused;
        self.aborted += o.aborted;
        self.books += o.books;
        self.twins += o.twins;
        for (k, v) in o.cov {
            *self.cov.entry(k).or_insert(0) += v;
        }
        for (k, v) in o.viols {
            let e = self.viols.entry(k).or_insert((v.0, 0, v.2.clone(), v.3.clone()));
            e.1 += v.1;
        }
        if self.samples.len() < 4 {
            self.samples.extend(o.samples);
        }
    }
}

/// equality of stored values up to JSON spelling (seeded legacy entries are written by the harness,
/// whose field order differs from the contract's serializer; entries that are not JSON compare as bytes)
fn val_eq(a: Option<&Vec<u8>>, b: Option<&Vec<u8>>) -> bool {
    match (a, b) {
        (None, None) => true,
        (Some(x), Some(y)) => {
            x == y
                || match (serde_json::from_slice::<Value>(x), serde_json::from_slice::<Value>(y)) {
                    (Ok(p), Ok(q)) => p == q,
                    _ => false,
                }
        }
        _ => false,
    }
}
fn sem_eq(a: &Store, b: &Store) -> bool {
    a.0.len() == b.0.len() && a.0.iter().all(|(k, v)| val_eq(Some(v), b.0.get(k)))
}

fn store_value(s: &Store) -> Value {
    Value::Array(s.0.iter().map(|(k, v)| json!([lossy(k), lossy(v)])).collect())
}
pub fn store_from_value(v: &Value) -> Option<Store> {
    let mut s = Store::default();
    for kv in v.as_array()? {
        let a = kv.as_array()?;
        s.0.insert(a.first()?.as_str()?.as_bytes().to_vec(), a.get(1)?.as_str()?.as_bytes().to_vec());
    }
    Some(s)
}

fn replay_doc(store: &Store, version: &str, shape: &MigShape, native: Option<&Store>) -> Value {
    json!({"kind": "migrate", "store": store_value(store), "stored_version": version, "migrate": shape.to_value(),
        "shape": [shape.approvers, shape.ask_pair, shape.bid_pair, shape.ask_attrs, shape.bid_attrs],
        "native_store": native.map(store_value)})
}

/// Judge one migration (and its repetition) of `twin` (a book, some bids possibly old-format) whose
/// version record is set to `version`. `native` = the same book with every bid in the current format.
pub fn judge(chain: &crate::chain::Chain, twin: &Store, native: &Store, version: &str, shape: &MigShape, ident: &(String, String), out: &mut MigOut) {
    let mut pre = twin.clone();
    set_version(&mut pre, version);
    let msg = match parse_migrate(&shape.to_value().to_string()) {
        Ok(m) => m,
        Err(e) => {
            out.v("C14", "C14/machinery/migrate-json-does-not-parse".into(), e, Value::Null);
            return;
        }
    };
    let o = do_migrate(&pre, chain, &msg);
    out.migrate_calls += 1;
    let cls = classify(version);
    let bad = shape.invalid();
    let undecided = bad.is_empty() && shape.undecided();
    let doc = || replay_doc(twin, version, shape, Some(native));
    let has_v2 = twin != native;
    out.c(&format!("C14/version-class/{cls:?}"));
    let a = match &o {
        Outcome::Accepted(a) => {
            out.accepted += 1;
            a
        }
        Outcome::Refused(e) => {
            out.refused += 1;
            if matches!(cls, VClass::InWindow | VClass::AtOrAfterChange) && bad.is_empty() && !undecided {
                out.v("C14", format!("C14/supported-version-valid-message-refused/{}", e.split(':').next().unwrap_or("").trim().replace(' ', "-")), format!("version {version}: {e}"), doc());
            }
            return;
        }
        Outcome::Aborted => {
            out.aborted += 1;
            if matches!(cls, VClass::InWindow | VClass::AtOrAfterChange) && bad.is_empty() && !undecided {
                out.v("C14", "C14/supported-version-valid-message-refused/panic".into(), format!("version {version}"), doc());
            }
            return;
        }
    };
    // accepted
    match cls {
        VClass::Unreadable => out.v("C14", "C14/accepted-with-unreadable-version".into(), format!("version {version:?}"), doc()),
        VClass::Below => out.v("C14", "C14/accepted-from-version-below-minimum".into(), format!("version {version:?}"), doc()),
        _ => {}
    }
    for b in &bad {
        out.v("C14", format!("C14/accepted-invalid-message/{b}"), shape.to_value().to_string(), doc());
    }
    let post = &a.store;
    if undecided {
        // an override whose spelling is a matter of taste was accepted: the configuration must still work
        out.c("C14/undecided-override-accepted");
        let book = decode_book(post);
        if let Some(info) = &book.info {
            let inc = info.increment().max(1);
            let rate = info.bid_fee_info.as_ref().and_then(|f| parse_dec(f.rate.trim()));
            let total = inc; // price 1
            let fee = match &info.bid_fee_info {
                None => Some(0),
                Some(_) => rate.and_then(|r| r.mul(Rat::int(total)?)).and_then(|x| x.round_half_away()),
            };
            if let Some(fee) = fee {
                let act = Act::new("buyer1", vec![(total + fee, "q1")], Req::CreateBid { id: crate::scenario::ID_UNUSED.into(), base: info.base_denom.clone(), fee: if fee > 0 { Some(("q1".into(), fee)) } else { None }, price: "1".into(), quote: "q1".into(), quote_size: total, size: inc });
                let o2 = crate::scenario::step_act(post, chain, &act);
                if !o2.is_accepted() {
                    out.v("C14", "C14/accepted-override-leaves-the-configuration-unusable".into(), format!("{} -> {}", act.describe(), o2.short()), doc());
                }
            }
        }
    }
    // every ask exactly as it was; no key other than config / version / bids touched
    let mut keys: Vec<&Vec<u8>> = pre.0.keys().chain(post.0.keys()).collect();
    keys.sort();
    keys.dedup();
    for k in keys {
        let (x, y) = (pre.0.get(k), post.0.get(k));
        if k.starts_with(ASK_PREFIX) {
            if x != y {
                out.v("C14", "C14/ask-changed".into(), format!("{:?}: {:?} -> {:?}", lossy(k), x.map(|v| lossy(v)), y.map(|v| lossy(v))), doc());
            }
        } else if k.starts_with(BID_PREFIX) {
            if x.is_some() != y.is_some() {
                out.v("C15", "C15/bid-lost-or-invented".into(), format!("{:?}: {:?} -> {:?}", lossy(k), x.map(|v| lossy(v)), y.map(|v| lossy(v))), doc());
            }
        }
    }
    // configuration = old configuration with exactly the requested overrides
    let old_cfg: Option<Value> = pre.0.get(KEY_INFO).and_then(|x| serde_json::from_slice(x).ok());
    let new_cfg: Option<Value> = post.0.get(KEY_INFO).and_then(|x| serde_json::from_slice(x).ok());
    if bad.is_empty() {
        if let Some(oc) = &old_cfg {
            if new_cfg.as_ref() != Some(&shape.apply(oc)) {
                out.v("C14", "C14/configuration-not-old-plus-requested-overrides".into(), format!("expected {} got {:?}", shape.apply(oc), new_cfg.as_ref().map(|v| v.to_string())), doc());
            }
        }
    }
    // version stamp
    let ver: Option<Value> = post.0.get(KEY_VERSION).and_then(|x| serde_json::from_slice(x).ok());
    if ver.as_ref().and_then(|v| v.get("version")).and_then(|v| v.as_str()) != Some(ident.1.as_str()) {
        out.v("C14", "C14/version-not-stamped".into(), format!("{ver:?}"), doc());
    }
    // bids (C15)
    let in_window = cls == VClass::InWindow;
    // C14 "preserves the book": from the versions that may hold old-format bids, every bid is a
    // readable current-format order afterwards (the stamped version says the state is current)
    if in_window {
        for (k, y) in post.0.iter().filter(|(k, _)| k.starts_with(BID_PREFIX)) {
            if decode_bid("", y).is_err() {
                out.v("C14", "C14/book-not-preserved/bid-unreadable-after-migration".into(), format!("{:?} = {}", lossy(k), lossy(y)), doc());
            }
        }
    }
    for (k, x) in pre.0.iter().filter(|(k, _)| k.starts_with(BID_PREFIX)) {
        let y = match post.0.get(k) {
            Some(y) => y,
            None => continue,
        };
        let was_v2 = native.0.get(k) != Some(x);
        if !was_v2 {
            out.c("C15/new-format-bid-through-migration");
            if x != y {
                out.v("C15", "C15/new-format-bid-rewritten".into(), format!("{} -> {}", lossy(x), lossy(y)), doc());
            }
        } else if in_window {
            out.c("C15/old-format-bid-converted");
            // differential: the converted bid must be byte-identical to the native one
            if !val_eq(Some(y), native.0.get(k)) {
                out.v("C15", "C15/converted-bid-differs-from-native".into(), format!("converted {} native {:?}", lossy(y), native.0.get(k).map(|v| lossy(v))), doc());
            }
            // independent reference: originals minus sums over the log
            let old: Value = serde_json::from_slice(x).unwrap_or(Value::Null);
            let sums = fold_log(old["events"].as_array().map(|v| v.as_slice()).unwrap_or(&[]));
            match decode_bid("", y) {
                Ok(nb) => {
                    if (nb.acc_base, nb.acc_quote, nb.acc_fee) != sums {
                        out.v("C15", "C15/converted-accumulations-differ-from-log-sums".into(), format!("log sums {sums:?}, converted {:?}", (nb.acc_base, nb.acc_quote, nb.acc_fee)), doc());
                        // C14 "preserves the book": what remains of a bid is part of the book
                        out.v("C14", "C14/book-not-preserved/bid-remaining-amounts-changed".into(), format!("log sums {sums:?}, after migration {:?}", (nb.acc_base, nb.acc_quote, nb.acc_fee)), doc());
                    }
                    let same = |f: &str| old.get(f).map(|v| v.to_string());
                    let newv: Value = serde_json::from_slice(y).unwrap_or(Value::Null);
                    for f in ["base", "fee", "id", "owner", "price", "quote"] {
                        if same(f) != newv.get(f).map(|v| v.to_string()) {
                            out.v("C15", format!("C15/converted-field-changed/{f}"), format!("{} -> {}", lossy(x), lossy(y)), doc());
                        }
                    }
                }
                Err(e) => out.v("C15", "C15/converted-bid-undecodable".into(), format!("{e}: {}", lossy(y)), doc()),
            }
        } else {
            out.c("C15/old-format-bid-outside-window");
            if x != y && cls != VClass::Undecided {
                out.v("C15", "C15/bid-rewritten-outside-conversion-window".into(), format!("version {version}: {} -> {}", lossy(x), lossy(y)), doc());
            }
        }
    }
    // whole-store differential: converting the twin gives exactly what migrating the native book gives
    if in_window && has_v2 && bad.is_empty() {
        let mut npre = native.clone();
        set_version(&mut npre, version);
        if let Outcome::Accepted(na) = do_migrate(&npre, chain, &msg) {
            out.migrate_calls += 1;
            out.c("C15/twin-vs-native-stores-compared");
            if !sem_eq(&na.store, post) {
                out.v("C15", "C15/migrated-twin-differs-from-migrated-native".into(), "stores differ".into(), doc());
            }
        }
    }
    // applying the same migration a second time changes nothing further
    if bad.is_empty() {
        match do_migrate(post, chain, &msg) {
            Outcome::Accepted(b) => {
                out.migrate_calls += 1;
                out.c("C14/second-application-compared");
                if b.store != *post {
                    out.v("C14", "C14/second-application-changes-state".into(), "stores differ after re-applying the same migration".into(), doc());
                }
            }
            o2 => {
                out.migrate_calls += 1;
                out.v("C14", "C14/second-application-refused".into(), o2.short(), doc());
            }
        }
    }
    if out.samples.len() < 3 && has_v2 && in_window {
        out.samples.push(json!({"stored_version": version, "migrate": shape.to_value(), "bids_before": pre.0.iter().filter(|(k, _)| k.starts_with(BID_PREFIX)).map(|(_, v)| lossy(v)).collect::<Vec<_>>(),
            "bids_after": post.0.iter().filter(|(k, _)| k.starts_with(BID_PREFIX)).map(|(_, v)| lossy(v)).collect::<Vec<_>>(), "outcome": "accepted"}));
    }
}

/// a converted bid behaves like a native one: exits and one reject on the migrated store
fn behaves_like_native(scen: &Scenario, migrated: &Store, native_current: &Store, out: &mut MigOut, doc: &dyn Fn() -> Value) {
    let book = decode_book(migrated);
    let exec = book.info.as_ref().and_then(|i| i.executors.first().cloned()).unwrap_or_default();
    for (k, b) in &book.bids {
        for act in [
            Act::new(&b.owner, vec![], Req::CancelBid { id: k.clone() }),
            Act::new(&exec, vec![], Req::ExpireBid { id: k.clone() }),
            Act::new(&exec, vec![], Req::RejectBid { id: k.clone(), size: Some(scen.cfg.increment) }),
        ] {
            let o1 = crate::scenario::step_act(migrated, &scen.cfg.chain, &act);
            let o2 = crate::scenario::step_act(native_current, &scen.cfg.chain, &act);
            out.c("C15/continuations-compared");
            let same = match (&o1, &o2) {
                (Outcome::Accepted(a), Outcome::Accepted(b)) => net_of(a) == net_of(b) && sem_eq(&a.store, &b.store),
                (Outcome::Refused(_), Outcome::Refused(_)) | (Outcome::Aborted, Outcome::Aborted) => true,
                _ => false,
            };
            if !same {
                out.v("C15", format!("C15/converted-bid-behaves-differently/{}", act.req.kind()), format!("migrated: {} native: {}", o1.short(), o2.short()), doc());
            }
        }
    }
}

pub fn run_books(tier: Tier, which: &str) -> Result<(MigOut, Vec<(String, crate::engine::Stats)>), String> {
    let ident = crate::c13::package_identity();
    let mut total = MigOut::default();
    let mut stats = vec![];
    for scen in book_scenarios(tier) {
        let ex = explore(&scen, &[], &Caps::default())?;
        stats.push((scen.name.clone(), ex.stats.clone()));
        let hb = hist_books(&scen, &ex);
        let shapes: Vec<MigShape> = if which == "C14" { mig_shapes(2, false) } else { mig_shapes(1, false) };
        let full_shapes = if which == "C14" && tier == Tier::Thorough { mig_shapes(0, true) } else { vec![] };
        let next = AtomicUsize::new(0);
        let agg = Mutex::new(MigOut::default());
        std::thread::scope(|sc| {
            for _ in 0..threads() {
                sc.spawn(|| {
                    let mut out = MigOut::default();
                    loop {
                        let i = next.fetch_add(1, Ordering::Relaxed);
                        if i >= hb.len() {
                            break;
                        }
                        let h = &hb[i];
                        out.books += 1;
                        // every subset of bids rewritten to the old format
                        let keys: Vec<&Vec<u8>> = h.store.0.keys().filter(|k| k.starts_with(BID_PREFIX)).collect();
                        for mask in 0..(1u32 << keys.len()) {
                            let mut twin = h.store.clone();
                            for (j, k) in keys.iter().enumerate() {
                                if mask & (1 << j) != 0 {
                                    let empty = vec![];
                                    let log = h.logs.get(*k).unwrap_or(&empty);
                                    twin.0.insert((*k).clone(), to_v2(&h.store.0[*k], log));
                                }
                            }
                            if mask != 0 {
                                out.twins += 1;
                            }
                            for v in VERSIONS {
                                if which == "C15" && !matches!(classify(v), VClass::InWindow | VClass::AtOrAfterChange | VClass::Below) {
                                    continue;
                                }
                                // the full message product only on a slice of versions (it is version-independent past the gate)
                                let use_full = !full_shapes.is_empty() && i % 8 == 0 && (v == "0.19.0" || v == "1.0.0");
                                for sh in if use_full { &full_shapes } else { &shapes } {
                                    judge(&scen.cfg.chain, &twin, &h.store, v, sh, &ident, &mut out);
                                }
                            }
                            // continuation on the migrated twin (no overrides, version inside the window)
                            if which == "C15" && mask != 0 {
                                let mut pre = twin.clone();
                                set_version(&mut pre, "0.19.0");
                                let msg = parse_migrate("{}").unwrap();
                                if let Outcome::Accepted(a) = do_migrate(&pre, &scen.cfg.chain, &msg) {
                                    out.migrate_calls += 1;
                                    // with no overrides the migrated twin must be the native state itself
                                    out.c("C15/migrated-twin-vs-original-state");
                                    let d = || json!({"kind": "migrate", "store": store_value(&twin), "stored_version": "0.19.0", "migrate": {}, "shape": [0, 0, 0, 0, 0], "native_store": store_value(&h.store), "path": h.path, "setup": scen.cfg.setup_value(&[])});
                                    if !sem_eq(&a.store, &h.store) {
                                        out.v("C15", "C15/migrated-twin-is-not-the-native-state".into(), "store after migrating the old-format twin differs from the state the history produced natively".into(), d());
                                    }
                                    behaves_like_native(&scen, &a.store, &h.store, &mut out, &d);
                                }
                            }
                        }
                    }
                    agg.lock().unwrap().merge(out);
                });
            }
        });
        total.merge(agg.into_inner().unwrap());
    }
    Ok((total, stats))
}

// ---------------------------------------------------------------------------------------------
// C15 (b): all event logs up to a length bound

fn event_menu() -> Vec<Value> {
    let mut v = vec![];
    for fee in [None, Some(1u128), Some(2)] {
        for q in [1u128, 2] {
            v.push(ev_refund(q, fee));
            for b in [1u128, 2] {
                v.push(ev_fill(b, q, fee, "2"));
                v.push(ev_reject(b, q, fee));
            }
        }
    }
    v
}

/// Books crowded with old-format bids (more than any history of the small books produces): sizes
/// around 50 / 100 / 128 / 256, a few current-format bids keyed before, between and after them.
pub fn run_crowded(tier: Tier) -> MigOut {
    let ident = crate::c13::package_identity();
    let menu = event_menu();
    let cfg = Cfg::new(0, 1, ("0.25", "0.25"), "R0");
    let sc = scen("crowded", cfg, Menu { ask_slots: 0, bid_slots: 0, prices: vec!["2"], sizes: vec![1], match_sizes: vec![], reject_sizes: vec![], ask_bases: vec![], two_approvers: false, modifies: vec![], quotes: vec![], migrates: vec![] }, vec![]);
    let s0 = crate::engine::initial_store(&sc).expect("instantiate");
    let sizes: Vec<usize> = if tier == Tier::Thorough {
        let mut z: Vec<usize> = (1..=70).collect();
        z.extend([99, 100, 101, 102, 127, 128, 129, 150, 151, 199, 200, 201, 255, 256, 257, 511, 512, 513, 1000, 1001]);
        z
    } else {
        vec![1, 3, 49, 50, 51, 52, 100, 101, 102, 128, 129, 256, 257]
    };
    let total = Mutex::new(MigOut::default());
    let next = AtomicUsize::new(0);
    std::thread::scope(|scp| {
        for _ in 0..threads() {
            scp.spawn(|| {
                let mut out = MigOut::default();
                loop {
                    let i = next.fetch_add(1, Ordering::Relaxed);
                    if i >= sizes.len() {
                        break;
                    }
                    let n = sizes[i];
                    let mut native = s0.clone();
                    let mut twin = s0.clone();
                    for j in 0..n {
                        let id = format!("c0a1b2c3-d4e5-4f60-8a9b-{:012x}", 2 * j);
                        let len = j % 4;
                        let events: Vec<Value> = (0..len).map(|k| menu[(j * 7 + k * 11 + 3) % menu.len()].clone()).collect();
                        let sums = fold_log(&events);
                        let nat = json!({"base": {"denom": "base", "amount": "100"}, "accumulated_base": sums.0.to_string(), "accumulated_quote": sums.1.to_string(), "accumulated_fee": sums.2.to_string(),
                            "fee": {"denom": "q1", "amount": "50"}, "id": id, "owner": if j % 2 == 0 { "buyer1" } else { "buyer2" }, "price": "2", "quote": {"denom": "q1", "amount": "200"}});
                        let nb = nat.to_string().into_bytes();
                        twin.0.insert(bid_key(&id), to_v2(&nb, &events));
                        native.0.insert(bid_key(&id), nb);
                    }
                    // current-format bids keyed before, in the middle of and after the old-format ones
                    for id in ["00000000-0000-4000-8000-000000000001", "c0a1b2c3-d4e5-4f60-8a9b-000000000033", "ffffffff-ffff-4fff-bfff-fffffffffffe"] {
                        let nat = json!({"base": {"denom": "base", "amount": "10"}, "accumulated_base": "3", "accumulated_quote": "6", "accumulated_fee": "1", "fee": {"denom": "q1", "amount": "5"},
                            "id": id, "owner": "buyer2", "price": "2", "quote": {"denom": "q1", "amount": "20"}});
                        twin.0.insert(bid_key(id), nat.to_string().into_bytes());
                        native.0.insert(bid_key(id), nat.to_string().into_bytes());
                    }
                    out.books += 1;
                    out.twins += 1;
                    out.c(&format!("C15/crowded-book/{}", if n > 50 { "more-than-50-old-format-bids" } else { "up-to-50-old-format-bids" }));
                    for v in ["0.16.2", "0.18.2", "0.19.0", "0.19.1", "1.0.0"] {
                        judge(&sc.cfg.chain, &twin, &native, v, &MigShape::none(), &ident, &mut out);
                    }
                }
                total.lock().unwrap().merge(out);
            });
        }
    });
    total.into_inner().unwrap()
}

pub fn run_all_logs(tier: Tier) -> MigOut {
    let ident = crate::c13::package_identity();
    let maxlen = if tier == Tier::Thorough { 5 } else { 4 };
    let menu = event_menu();
    let n = menu.len();
    // a book with one new-format bid and the bid under test
    let cfg = Cfg::new(0, 1, ("0.25", "0.25"), "R0");
    let sc = scen("all-logs", cfg, Menu { ask_slots: 0, bid_slots: 0, prices: vec!["2"], sizes: vec![1], match_sizes: vec![], reject_sizes: vec![], ask_bases: vec![], two_approvers: false, modifies: vec![], quotes: vec![], migrates: vec![] }, vec![]);
    let s0 = crate::engine::initial_store(&sc).expect("instantiate");
    let native_other = json!({"base": {"denom": "base", "amount": "10"}, "accumulated_base": "3", "accumulated_quote": "6", "accumulated_fee": "1", "fee": {"denom": "q1", "amount": "5"},
        "id": crate::scenario::ID_B2, "owner": "buyer2", "price": "2", "quote": {"denom": "q1", "amount": "20"}});
    let key_other = bid_key(crate::scenario::ID_B2);
    let key = bid_key(crate::scenario::ID_A);
    let mk_native = |sums: (u128, u128, u128)| -> Value {
        json!({"base": {"denom": "base", "amount": "100"}, "accumulated_base": sums.0.to_string(), "accumulated_quote": sums.1.to_string(), "accumulated_fee": sums.2.to_string(),
            "fee": {"denom": "q1", "amount": "50"}, "id": crate::scenario::ID_A, "owner": "buyer1", "price": "2", "quote": {"denom": "q1", "amount": "200"}})
    };
    // first-level split across threads
    let total = Mutex::new(MigOut::default());
    let next = AtomicUsize::new(0);
    let firsts: Vec<Option<usize>> = std::iter::once(None).chain((0..n).map(Some)).collect();
    std::thread::scope(|scp| {
        for _ in 0..threads() {
            scp.spawn(|| {
                let mut out = MigOut::default();
                loop {
                    let fi = next.fetch_add(1, Ordering::Relaxed);
                    if fi >= firsts.len() {
                        break;
                    }
                    let mut stack: Vec<Vec<usize>> = match firsts[fi] {
                        None => vec![vec![]],
                        Some(f) => vec![vec![f]],
                    };
                    while let Some(seq) = stack.pop() {
                        if !seq.is_empty() && seq.len() < maxlen {
                            for e in 0..n {
                                let mut s2 = seq.clone();
                                s2.push(e);
                                stack.push(s2);
                            }
                        }
                        let events: Vec<Value> = seq.iter().map(|i| menu[*i].clone()).collect();
                        let sums = fold_log(&events);
                        let mut native = s0.clone();
                        native.0.insert(key_other.clone(), native_other.to_string().into_bytes());
                        // the native twin must be serialised the way the contract does: obtain it by
                        // converting once through a reference path? No: compare semantically below.
                        native.0.insert(key.clone(), mk_native(sums).to_string().into_bytes());
                        let mut twin = native.clone();
                        twin.0.insert(key.clone(), to_v2(&native.0[&key], &events));
                        out.twins += 1;
                        out.c(&format!("C15/log-length-{}", seq.len()));
                        for v in ["0.16.1", "0.16.2", "0.19.0", "0.19.1", "1.0.0"] {
                            let mut pre = twin.clone();
                            set_version(&mut pre, v);
                            let msg = parse_migrate("{}").unwrap();
                            let o = do_migrate(&pre, &sc.cfg.chain, &msg);
                            out.migrate_calls += 1;
                            let cls = classify(v);
                            let doc = || json!({"kind": "migrate-log", "events": events, "stored_version": v});
                            match (&o, cls) {
                                (Outcome::Accepted(_), VClass::Below) => out.v("C14", "C14/accepted-from-version-below-minimum".into(), v.into(), doc()),
                                (Outcome::Accepted(a), _) => {
                                    out.accepted += 1;
                                    let y = a.store.0.get(&key);
                                    let other = a.store.0.get(&key_other);
                                    if other != pre.0.get(&key_other) {
                                        out.v("C15", "C15/new-format-bid-rewritten".into(), format!("{:?}", other.map(|v| lossy(v))), doc());
                                    }
                                    if a.store.0.keys().filter(|k| k.starts_with(BID_PREFIX)).count() != 2 {
                                        out.v("C15", "C15/bid-lost-or-invented".into(), String::new(), doc());
                                    }
                                    if cls == VClass::InWindow {
                                        out.c("C15/old-format-bid-converted");
                                        let got: Option<Value> = y.and_then(|b| serde_json::from_slice(b).ok());
                                        if got != Some(mk_native(sums)) {
                                            out.v("C15", "C15/converted-accumulations-differ-from-log-sums".into(), format!("expected {} got {:?}", mk_native(sums), y.map(|v| lossy(v))), doc());
                                        } else {
                                            // behaves like the native bid with the same accumulations
                                            let act = Act::new("buyer1", vec![], Req::CancelBid { id: crate::scenario::ID_A.into() });
                                            let mut nat = native.clone();
                                            nat.0.insert(KEY_VERSION.to_vec(), a.store.0[KEY_VERSION].clone());
                                            let o1 = crate::scenario::step_act(&a.store, &sc.cfg.chain, &act);
                                            let o2 = crate::scenario::step_act(&nat, &sc.cfg.chain, &act);
                                            out.c("C15/continuations-compared");
                                            let same = match (&o1, &o2) {
                                                (Outcome::Accepted(x), Outcome::Accepted(z)) => net_of(x) == net_of(z),
                                                (Outcome::Refused(_), Outcome::Refused(_)) | (Outcome::Aborted, Outcome::Aborted) => true,
                                                _ => false,
                                            };
                                            if !same {
                                                out.v("C15", "C15/converted-bid-behaves-differently/cancel_bid".into(), format!("{} vs {}", o1.short(), o2.short()), doc());
                                            }
                                        }
                                    } else {
                                        out.c("C15/old-format-bid-outside-window");
                                        if y != pre.0.get(&key) {
                                            out.v("C15", "C15/bid-rewritten-outside-conversion-window".into(), v.into(), doc());
                                        }
                                    }
                                    let ver: Option<Value> = a.store.0.get(KEY_VERSION).and_then(|x| serde_json::from_slice(x).ok());
                                    if ver.as_ref().and_then(|v| v.get("version")).and_then(|v| v.as_str()) != Some(ident.1.as_str()) {
                                        out.v("C14", "C14/version-not-stamped".into(), format!("{ver:?}"), doc());
                                    }
                                }
                                (_, VClass::Below) => out.refused += 1,
                                (o, _) => {
                                    out.refused += 1;
                                    out.v("C14", "C14/supported-version-valid-message-refused/all-logs".into(), format!("{v}: {}", o.short()), doc());
                                }
                            }
                        }
                        if out.samples.len() < 2 && seq.len() == 3 {
                            out.samples.push(json!({"event_log": events, "reference_sums_base_quote_fee": [sums.0.to_string(), sums.1.to_string(), sums.2.to_string()]}));
                        }
                    }
                }
                total.lock().unwrap().merge(out);
            });
        }
    });
    total.into_inner().unwrap()
}

/// re-judge a migration replay file
pub fn replay(doc: &Value) -> Result<(bool, Vec<String>), String> {
    let want = doc.get("signature").and_then(|s| s.as_str()).unwrap_or("").to_string();
    let ident = crate::c13::package_identity();
    let mut out = MigOut::default();
    let mut log = vec![];
    let chain = crate::chain::Chain::default();
    if doc.get("kind").and_then(|k| k.as_str()) == Some("migrate-log") {
        return Err("all-logs replays are re-derived by running the check; the file records the event log".into());
    }
    let twin = store_from_value(doc.get("store").ok_or("no store")?).ok_or("store not understood")?;
    let native = doc.get("native_store").and_then(store_from_value).unwrap_or_else(|| twin.clone());
    let version = doc.get("stored_version").and_then(|v| v.as_str()).ok_or("no version")?;
    let dims: Vec<usize> = doc.get("shape").and_then(|s| s.as_array()).map(|a| a.iter().filter_map(|x| x.as_u64().map(|u| u as usize)).collect()).unwrap_or_default();
    if dims.len() != 5 {
        return Err("shape not understood".into());
    }
    let shape = MigShape { approvers: dims[0], ask_pair: dims[1], bid_pair: dims[2], ask_attrs: dims[3], bid_attrs: dims[4] };
    log.push(format!("  stored version {version:?}, migrate {}", shape.to_value()));
    for (k, v) in &twin.0 {
        log.push(format!("    {:?} = {}", lossy(k), lossy(v)));
    }
    judge(&chain, &twin, &native, version, &shape, &ident, &mut out);
    if want.starts_with("C15/migrated-twin-is-not") || want.starts_with("C15/converted-bid-behaves") {
        let mut pre = twin.clone();
        set_version(&mut pre, version);
        if let Outcome::Accepted(a) = do_migrate(&pre, &chain, &parse_migrate("{}").unwrap()) {
            if !sem_eq(&a.store, &native) {
                out.v("C15", "C15/migrated-twin-is-not-the-native-state".into(), String::new(), Value::Null);
            }
            let cfg = doc.get("setup").and_then(Cfg::from_setup).map(|x| x.0).unwrap_or_else(|| Cfg::new(0, 2, ("0.25", "0.25"), "R0"));
            let sc = scen("replay", cfg, menu_p1(0, 0), vec![]);
            behaves_like_native(&sc, &a.store, &native, &mut out, &|| Value::Null);
        }
    }
    log.push(format!("  migrate calls {} accepted {} refused {} aborted {}", out.migrate_calls, out.accepted, out.refused, out.aborted));
    for (k, v) in &out.viols {
        log.push(format!("  !! {} {k}: {}", v.0, v.2));
    }
    Ok((out.viols.contains_key(&want), log))
}
