mod catalogue;
mod chain;
mod engine;
mod evidence;
mod hooks;
mod oracles;
mod probes;
mod refmodel;
mod run;
mod scenario;

use catalogue::Tier;
use std::collections::BTreeMap;

const BOOK_PROPS: [&str; 14] = ["C01", "C02", "C03", "C04", "C05", "C06", "C07", "C08", "C09", "C10", "C11", "C12", "C16", "C17"];

fn check(prop: &str, tier: Tier) -> i32 {
    let tier_s = if tier == Tier::Quick { "quick" } else { "thorough" };
    if BOOK_PROPS.contains(&prop) {
        let rep = run::run_plan(prop, tier);
        if let Some(e) = &rep.machinery_error {
            eprintln!("MACHINERY ERROR: {e}");
            return 2;
        }
        let (cov, assumptions) = evidence::book_evidence(&rep);
        for k in cov["vacuous_counters"].as_array().cloned().unwrap_or_default() {
            println!("WARNING vacuous: counter {} is zero in this run", k);
        }
        for (sig, desc) in &rep.known {
            println!("KNOWN-FINDING: property={prop} {sig}: {desc}");
        }
        for (k, n) in &rep.other_props {
            println!("note: not deciding here: {k} x{n}");
        }
        if let Err(e) = evidence::write_evidence(prop, tier_s, cov, assumptions, rep.wall_s, rep.unlisted.len(), BTreeMap::new()) {
            eprintln!("MACHINERY ERROR: {e}");
            return 2;
        }
        let st: usize = rep.scen.iter().map(|s| s.stats.states).sum();
        let tr: u64 = rep.scen.iter().map(|s| s.stats.l_transitions + s.stats.p_transitions + s.stats.extra_execs).sum();
        println!("{prop} {tier_s}: {} scenarios, {st} states, {tr} transitions, {:.1}s, exhaustive={}", rep.scen.len(), rep.wall_s, rep.scen.iter().all(|s| s.stats.exhaustive));
        if rep.unlisted.is_empty() {
            println!("OK property={prop} held on everything explored");
            0
        } else {
            for (sig, file) in &rep.unlisted {
                println!("  {sig}");
                println!("VIOLATION property={prop} replay={file}");
            }
            1
        }
    } else {
        eprintln!("MACHINERY ERROR: no check registered for {prop}");
        2
    }
}

fn replay(path: &str) -> i32 {
    let s = match std::fs::read_to_string(path) {
        Ok(s) => s,
        Err(e) => {
            eprintln!("MACHINERY ERROR: {path}: {e}");
            return 2;
        }
    };
    let doc: serde_json::Value = match serde_json::from_str(&s) {
        Ok(d) => d,
        Err(e) => {
            eprintln!("MACHINERY ERROR: {path}: {e}");
            return 2;
        }
    };
    let prop = doc["property"].as_str().unwrap_or("?").to_string();
    println!("replaying {path}: property {prop}, signature {}", doc["signature"].as_str().unwrap_or(""));
    println!("detail recorded: {}", doc["detail"].as_str().unwrap_or(""));
    let r = run::replay_book(&doc);
    match r {
        Ok(r) => {
            for l in &r.log {
                println!("{l}");
            }
            if r.reproduced {
                println!("VIOLATION property={prop} replay={path}");
                1
            } else {
                println!("not reproduced on the current tree");
                0
            }
        }
        Err(e) => {
            eprintln!("MACHINERY ERROR: {e}");
            2
        }
    }
}

fn main() {
    std::panic::set_hook(Box::new(|_| {}));
    let args: Vec<String> = std::env::args().collect();
    let code = match args.get(1).map(|s| s.as_str()) {
        Some("check") => {
            let prop = args.get(2).cloned().unwrap_or_default();
            let tier = match args.get(3).map(|s| s.as_str()).or(std::env::var("VERIF_TIER").ok().as_deref().map(|_| "")) {
                Some("thorough") => Tier::Thorough,
                _ => match std::env::var("VERIF_TIER").ok().as_deref() {
                    Some("thorough") if args.get(3).is_none() => Tier::Thorough,
                    _ => Tier::Quick,
                },
            };
            check(&prop, tier)
        }
        Some("replay") => replay(args.get(2).map(|s| s.as_str()).unwrap_or("")),
        _ => {
            eprintln!("usage: atsmc check <Cxx> [quick|thorough] | replay <file>");
            2
        }
    };
    std::process::exit(code);
}
