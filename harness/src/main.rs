mod c13;
mod catalogue;
mod chain;
mod engine;
mod evidence;
mod hooks;
mod mig;
mod oracles;
mod probes;
mod refmodel;
mod run;
mod scenario;
mod selftest;

use catalogue::Tier;
use std::collections::BTreeMap;

const BOOK_PROPS: [&str; 14] = ["C01", "C02", "C03", "C04", "C05", "C06", "C07", "C08", "C09", "C10", "C11", "C12", "C16", "C17"];

fn check(prop: &str, tier: Tier) -> i32 {
    let tier_s = if tier == Tier::Quick { "quick" } else { "thorough" };
    if BOOK_PROPS.contains(&prop) {
        let rep = run::run_plan(prop, tier);
        if let Some(e) = &rep.machinery_error {
            eprintln!("MACHINERY ERROR: {e}");
            return 2;
        }
        let (cov, assumptions) = evidence::book_evidence(&rep);
        for k in cov["vacuous_counters"].as_array().cloned().unwrap_or_default() {
            println!("WARNING vacuous: counter {} is zero in this run", k);
        }
        for (sig, desc) in &rep.known {
            println!("KNOWN-FINDING: property={prop} {sig}: {desc}");
        }
        for (k, n) in &rep.other_props {
            println!("note: not deciding here: {k} x{n}");
        }
        if let Err(e) = evidence::write_evidence(prop, tier_s, cov, assumptions, rep.wall_s, rep.unlisted.len(), BTreeMap::new()) {
            eprintln!("MACHINERY ERROR: {e}");
            return 2;
        }
        let st: usize = rep.scen.iter().map(|s| s.stats.states).sum();
        let tr: u64 = rep.scen.iter().map(|s| s.stats.l_transitions + s.stats.p_transitions + s.stats.extra_execs).sum();
        println!("{prop} {tier_s}: {} scenarios, {st} states, {tr} transitions, {:.1}s, exhaustive={}", rep.scen.len(), rep.wall_s, rep.scen.iter().all(|s| s.stats.exhaustive));
        if rep.unlisted.is_empty() {
            println!("OK property={prop} held on everything explored");
            0
        } else {
            for (sig, file) in &rep.unlisted {
                println!("  {sig}");
                println!("VIOLATION property={prop} replay={file}");
            }
            1
        }
    } else if prop == "C13" {
        check_c13(tier, tier_s)
    } else if prop == "C14" || prop == "C15" {
        check_mig(prop, tier, tier_s)
    } else {
        eprintln!("MACHINERY ERROR: no check registered for {prop}");
        2
    }
}

fn check_mig(prop: &str, tier: Tier, tier_s: &str) -> i32 {
    use serde_json::json;
    let t0 = std::time::Instant::now();
    let findings = match run::load_findings() {
        Ok(f) => f,
        Err(e) => {
            eprintln!("MACHINERY ERROR: {e}");
            return 2;
        }
    };
    let (mut out, stats) = match mig::run_books(tier, prop) {
        Ok(x) => x,
        Err(e) => {
            eprintln!("MACHINERY ERROR: {e}");
            return 2;
        }
    };
    for (n, s) in &stats {
        eprintln!("  [{prop}] closure {n}: {} states, depth {}, exhaustive {}", s.states, s.depth, s.exhaustive);
    }
    eprintln!("  [{prop}] books {} old-format twins {} migrate calls {} (accepted {} refused {} aborted {})", out.books, out.twins, out.migrate_calls, out.accepted, out.refused, out.aborted);
    {
        let o3 = mig::run_crowded(tier);
        eprintln!("  [{prop}] crowded books: {} books, {} migrate calls", o3.books, o3.migrate_calls);
        out.merge_pub(o3);
    }
    let mut logs_calls = 0;
    if prop == "C15" {
        let o2 = mig::run_all_logs(tier);
        eprintln!("  [{prop}] all event logs: {} logs, {} migrate calls", o2.twins, o2.migrate_calls);
        logs_calls = o2.migrate_calls;
        out.merge_pub(o2);
    }
    let mut unlisted: Vec<(String, String)> = vec![];
    let mut n = 0;
    for (sig, (vprop, count, detail, doc)) in &out.viols {
        if *vprop != prop {
            println!("note: not deciding here: {vprop} {sig} x{count}");
            continue;
        }
        if let Some(f) = run::is_known(&findings, prop, sig) {
            println!("KNOWN-FINDING: property={prop} {sig}: {}", f.description);
            continue;
        }
        n += 1;
        let file = format!("{}/replays/{prop}-{n}.json", run::out_root());
        let _ = std::fs::create_dir_all(format!("{}/replays", run::out_root()));
        let mut d = doc.clone();
        if d.is_null() {
            d = json!({});
        }
        d["property"] = json!(prop);
        d["signature"] = json!(sig);
        d["occurrences"] = json!(count);
        d["detail"] = json!(detail);
        if d.get("kind").is_none() {
            d["kind"] = json!("migrate");
        }
        if let Err(e) = std::fs::write(&file, serde_json::to_string_pretty(&d).unwrap()) {
            eprintln!("MACHINERY ERROR: {e}");
            return 2;
        }
        if d["kind"] == json!("migrate") {
            let r1 = mig::replay(&d);
            let r2 = mig::replay(&d);
            match (r1, r2) {
                (Ok(a), Ok(b)) if a.0 && b.0 => {}
                (a, _) => {
                    eprintln!("MACHINERY ERROR: {prop} violation {sig} does not replay deterministically from {file}: {:?}", a.map(|x| x.0));
                    return 2;
                }
            }
        }
        unlisted.push((sig.clone(), file));
    }
    let closure_states: usize = stats.iter().map(|s| s.1.states).sum();
    let req: Vec<&str> = if prop == "C14" {
        vec!["C14/version-class/Unreadable", "C14/version-class/Below", "C14/version-class/InWindow", "C14/version-class/AtOrAfterChange", "C14/version-class/Undecided", "C14/second-application-compared", "C15/old-format-bid-converted", "C15/new-format-bid-through-migration"]
    } else {
        vec!["C15/old-format-bid-converted", "C15/old-format-bid-outside-window", "C15/new-format-bid-through-migration", "C15/twin-vs-native-stores-compared", "C15/migrated-twin-vs-original-state", "C15/continuations-compared", "C15/log-length-4"]
    };
    let vac: Vec<&str> = req.iter().copied().filter(|k| out.cov.get(*k).copied().unwrap_or(0) == 0).collect();
    for k in &vac {
        println!("WARNING vacuous: counter {k:?} is zero in this run");
    }
    let cov = json!({
        "states": closure_states as u64 + out.twins,
        "transitions": out.migrate_calls,
        "traces_validated_against_impl": out.migrate_calls,
        "exhaustive": stats.iter().all(|s| s.1.exhaustive),
        "samples": out.samples,
        "closures": stats.iter().map(|(n, s)| json!({"name": n, "states": s.states, "transitions": s.l_transitions, "depth_to_fixpoint": s.depth, "exhaustive": s.exhaustive})).collect::<Vec<_>>(),
        "books": out.books, "old_format_twins": out.twins, "migrate_calls": out.migrate_calls, "all_logs_migrate_calls": logs_calls,
        "accepted": out.accepted, "refused": out.refused, "aborted": out.aborted,
        "stored_versions": mig::VERSIONS,
        "counters": out.cov, "vacuous_counters": vac,
        "explanation": "states = every state of the closure(s) (books produced by real histories) plus their old-format twins (each subset of bids rewritten with the event log observed along the path); transitions = migrate entry-point executions (each compared with the reference; accepted ones followed by a second application)",
    });
    let assumptions = vec![
        "stored versions and migrate messages from the listed alphabets; pre-release / build-metadata versions get the conditional verdict only".to_string(),
        "event logs: those observed along the BFS path of each state, plus (C15) every log up to the length bound over {fill, refund, reject} x {no fee, fee 1, fee 2} x amounts {1, 2}".to_string(),
        "native x86-64 build of the working-tree sources".to_string(),
    ];
    if let Err(e) = evidence::write_evidence(prop, tier_s, cov, assumptions, t0.elapsed().as_secs_f64(), unlisted.len(), BTreeMap::new()) {
        eprintln!("MACHINERY ERROR: {e}");
        return 2;
    }
    println!("{prop} {tier_s}: {} books, {} twins, {} migrate calls, {:.1}s", out.books, out.twins, out.migrate_calls, t0.elapsed().as_secs_f64());
    if unlisted.is_empty() {
        println!("OK property={prop} held on everything explored");
        0
    } else {
        for (sig, file) in &unlisted {
            println!("  {sig}");
            println!("VIOLATION property={prop} replay={file}");
        }
        1
    }
}

fn check_c13(tier: Tier, tier_s: &str) -> i32 {
    use serde_json::json;
    let t0 = std::time::Instant::now();
    let findings = match run::load_findings() {
        Ok(f) => f,
        Err(e) => {
            eprintln!("MACHINERY ERROR: {e}");
            return 2;
        }
    };
    let sw = c13::sweep(tier);
    eprintln!("  [C13] instantiate sweep: {} calls, {} accepted, {} refused, {} aborted, {} accepted (precision, increment) pairs", sw.calls, sw.accepted, sw.refused, sw.aborted, sw.accepted_pairs.len());
    let mut unlisted: Vec<(String, String)> = vec![];
    let mut n = 0;
    for (sig, (count, shape, detail)) in &sw.viols {
        if let Some(f) = run::is_known(&findings, "C13", sig) {
            println!("KNOWN-FINDING: property=C13 {sig}: {}", f.description);
            continue;
        }
        n += 1;
        let file = format!("{}/replays/C13-{n}.json", run::out_root());
        let _ = std::fs::create_dir_all(format!("{}/replays", run::out_root()));
        let doc = json!({"property": "C13", "kind": "instantiate", "signature": sig, "occurrences": count, "detail": detail, "shape": shape});
        if let Err(e) = std::fs::write(&file, serde_json::to_string_pretty(&doc).unwrap()) {
            eprintln!("MACHINERY ERROR: {e}");
            return 2;
        }
        let r1 = c13::replay(&doc);
        let r2 = c13::replay(&doc);
        match (r1, r2) {
            (Ok(a), Ok(b)) if a.0 && b.0 => {}
            _ => {
                eprintln!("MACHINERY ERROR: C13 violation {sig} does not replay deterministically");
                return 2;
            }
        }
        unlisted.push((sig.clone(), file));
    }
    // integrality consequence on closures
    let rep = run::run_given("C13", tier, c13::closure_plan(&sw.accepted_pairs, tier), n);
    if let Some(e) = &rep.machinery_error {
        eprintln!("MACHINERY ERROR: {e}");
        return 2;
    }
    for (sig, desc) in &rep.known {
        println!("KNOWN-FINDING: property=C13 {sig}: {desc}");
    }
    for (k, nn) in &rep.other_props {
        println!("note: not deciding here: {k} x{nn}");
    }
    unlisted.extend(rep.unlisted.iter().cloned());
    let (mut cov, assumptions) = evidence::book_evidence(&rep);
    let cst: usize = rep.scen.iter().map(|s| s.stats.states).sum();
    let ctr: u64 = rep.scen.iter().map(|s| s.stats.l_transitions + s.stats.p_transitions + s.stats.extra_execs).sum();
    cov["states"] = json!(cst as u64 + sw.accepted);
    cov["transitions"] = json!(ctr + sw.calls);
    cov["traces_validated_against_impl"] = json!(ctr + sw.calls);
    cov["instantiate_sweep"] = json!({"calls": sw.calls, "accepted": sw.accepted, "refused": sw.refused, "aborted": sw.aborted, "accepted_configurations_driven_through_create_create_match": sw.usable_checked,
        "refusals_by_first_reference_reason": sw.by_reason, "accepted_precision_increment_pairs": sw.accepted_pairs.iter().map(|(p, i)| format!("({p},{i})")).collect::<Vec<_>>(),
        "enumeration": if tier == Tier::Quick { "every (precision 0..20,38..40 x increment) pair x all shapes within 2 field deviations of a valid baseline" } else { "3 field deviations everywhere; full 278784-shape product for precision 0,1,2,17,18,19 at increments 0,1,10^p,10^p+1" }});
    let mut samples = sw.samples.clone();
    samples.extend(rep.samples.iter().cloned());
    cov["samples"] = json!(samples);
    cov["explanation"] = json!("states = accepted instantiations (each a distinct initial state) + states of the integrality closures; transitions = instantiate calls + closure transitions; each is one execution of the real entry point compared with the reference");
    if let Err(e) = evidence::write_evidence("C13", tier_s, cov, assumptions, t0.elapsed().as_secs_f64(), unlisted.len(), BTreeMap::new()) {
        eprintln!("MACHINERY ERROR: {e}");
        return 2;
    }
    println!("C13 {tier_s}: {} instantiate calls, {} closures with {cst} states / {ctr} transitions, {:.1}s", sw.calls, rep.scen.len(), t0.elapsed().as_secs_f64());
    if unlisted.is_empty() {
        println!("OK property=C13 held on everything explored");
        0
    } else {
        for (sig, file) in &unlisted {
            println!("  {sig}");
            println!("VIOLATION property=C13 replay={file}");
        }
        1
    }
}

fn replay(path: &str) -> i32 {
    let s = match std::fs::read_to_string(path) {
        Ok(s) => s,
        Err(e) => {
            eprintln!("MACHINERY ERROR: {path}: {e}");
            return 2;
        }
    };
    let doc: serde_json::Value = match serde_json::from_str(&s) {
        Ok(d) => d,
        Err(e) => {
            eprintln!("MACHINERY ERROR: {path}: {e}");
            return 2;
        }
    };
    let prop = doc["property"].as_str().unwrap_or("?").to_string();
    println!("replaying {path}: property {prop}, signature {}", doc["signature"].as_str().unwrap_or(""));
    println!("detail recorded: {}", doc["detail"].as_str().unwrap_or(""));
    if matches!(doc.get("kind").and_then(|k| k.as_str()), Some("migrate") | Some("migrate-log")) {
        return match mig::replay(&doc) {
            Ok((rep, log)) => {
                for l in &log {
                    println!("{l}");
                }
                if rep {
                    println!("VIOLATION property={prop} replay={path}");
                    1
                } else {
                    println!("not reproduced on the current tree");
                    0
                }
            }
            Err(e) => {
                eprintln!("MACHINERY ERROR: {e}");
                2
            }
        };
    }
    if doc.get("kind").and_then(|k| k.as_str()) == Some("instantiate") {
        return match c13::replay(&doc) {
            Ok((rep, log)) => {
                for l in &log {
                    println!("{l}");
                }
                if rep {
                    println!("VIOLATION property={prop} replay={path}");
                    1
                } else {
                    println!("not reproduced on the current tree");
                    0
                }
            }
            Err(e) => {
                eprintln!("MACHINERY ERROR: {e}");
                2
            }
        };
    }
    let r = run::replay_book(&doc);
    match r {
        Ok(r) => {
            for l in &r.log {
                println!("{l}");
            }
            if r.reproduced {
                println!("VIOLATION property={prop} replay={path}");
                1
            } else {
                println!("not reproduced on the current tree");
                0
            }
        }
        Err(e) => {
            eprintln!("MACHINERY ERROR: {e}");
            2
        }
    }
}

fn main() {
    std::panic::set_hook(Box::new(|_| {}));
    let args: Vec<String> = std::env::args().collect();
    let code = match args.get(1).map(|s| s.as_str()) {
        Some("check") => {
            let prop = args.get(2).cloned().unwrap_or_default();
            let tier = match args.get(3).map(|s| s.as_str()).or(std::env::var("VERIF_TIER").ok().as_deref().map(|_| "")) {
                Some("thorough") => Tier::Thorough,
                _ => match std::env::var("VERIF_TIER").ok().as_deref() {
                    Some("thorough") if args.get(3).is_none() => Tier::Thorough,
                    _ => Tier::Quick,
                },
            };
            check(&prop, tier)
        }
        Some("xcheck") => {
            // debugging aid: run the plan of one property, decide on another (never registered in MANIFEST)
            let plan_prop = args.get(2).cloned().unwrap_or_default();
            let decide = args.get(3).cloned().unwrap_or_default();
            let tier = if args.get(4).map(|s| s.as_str()) == Some("thorough") { Tier::Thorough } else { Tier::Quick };
            let pl = if plan_prop == "C13" { c13::closure_plan(&c13::sweep(Tier::Quick).accepted_pairs, tier) } else { catalogue::plan(&plan_prop, tier) };
            let rep = run::run_given(&decide, tier, pl, 900);
            if let Some(e) = &rep.machinery_error {
                eprintln!("MACHINERY ERROR: {e}");
            }
            for (sig, file) in &rep.unlisted {
                println!("  {sig}\nVIOLATION property={decide} replay={file}");
            }
            for (k, n) in &rep.other_props {
                println!("note: {k} x{n}");
            }
            if rep.unlisted.is_empty() { 0 } else { 1 }
        }
        Some("plans") => {
            // the as-built scenario catalogue (PLANS.md is generated from this)
            println!("# Scenario catalogue as built (generated by `atsmc plans`)\n");
            println!("Name key: B<asks><bids> book shape / precision-increment menu / fee rates / role aliasing / marker spec over (base, conv, q1[, conv2, q2]); |L| life-cycle requests, |P| probe requests executed from every reachable state.\n");
            for prop in BOOK_PROPS {
                for (tier, tn) in [(Tier::Quick, "quick"), (Tier::Thorough, "thorough")] {
                    let pl = catalogue::plan(prop, tier);
                    println!("## {prop} {tn} — hooks {:?}\n", pl.hooks);
                    for s in &pl.scenarios {
                        println!("- `{}`: |L| = {}, |P| = {}{}", s.name, s.l.len(), s.p.len(), if s.seed.is_empty() { "" } else { ", seeded legacy orders" });
                    }
                    println!();
                }
            }
            0
        }
        Some("selftest") => selftest::run(),
        Some("replay") => replay(args.get(2).map(|s| s.as_str()).unwrap_or("")),
        _ => {
            eprintln!("usage: atsmc check <Cxx> [quick|thorough] | replay <file>");
            2
        }
    };
    std::process::exit(code);
}
