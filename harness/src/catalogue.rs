//! Which scenarios, probes and per-state hooks decide which property at which tier
//! (DESIGN §5, §6).

use crate::chain::Marker;
use crate::probes;
use crate::scenario::*;
use serde_json::json;
use std::collections::BTreeMap;
use std::sync::Arc;

#[derive(Clone, Copy, PartialEq, Eq, Debug)]
pub enum Tier {
    Quick,
    Thorough,
}

#[derive(Clone, Copy, PartialEq, Eq, Debug)]
pub enum HookKind {
    Exit,
    Query,
}

pub struct Plan {
    pub scenarios: Vec<Scenario>,
    pub hooks: Vec<HookKind>,
}

pub fn menu_p1(a: usize, b: usize) -> Menu {
    Menu {
        ask_slots: a,
        bid_slots: b,
        prices: vec!["2", "3"],
        sizes: vec![2, 4],
        match_sizes: vec![1, 2, 3, 4],
        reject_sizes: vec![2],
        ask_bases: vec!["base", "conv"],
        two_approvers: false,
        modifies: vec![],
        quotes: vec![],
        migrates: vec![],
    }
}

pub fn menu_p1_big(a: usize, b: usize) -> Menu {
    Menu {
        prices: vec!["2", "3", "7"],
        sizes: vec![2, 4, 6],
        match_sizes: vec![1, 2, 3, 4, 5, 6],
        reject_sizes: vec![2, 4],
        ..menu_p1(a, b)
    }
}

/// precision 0, increment 1
pub fn menu_p0(a: usize, b: usize, prices: Vec<&'static str>) -> Menu {
    Menu {
        ask_slots: a,
        bid_slots: b,
        prices,
        sizes: vec![1, 2, 3],
        match_sizes: vec![1, 2, 3],
        reject_sizes: vec![1],
        ask_bases: vec!["base", "conv"],
        two_approvers: false,
        modifies: vec![],
        quotes: vec![],
        migrates: vec![],
    }
}

/// precision 1, increment 10: decimal prices, equal-but-differently-written, non-integer totals
pub fn menu_p2(a: usize, b: usize) -> Menu {
    Menu {
        ask_slots: a,
        bid_slots: b,
        prices: vec!["0.5", "1", "1.5", "1.50"],
        sizes: vec![10, 20],
        match_sizes: vec![2, 5, 10, 15, 20],
        reject_sizes: vec![10],
        ask_bases: vec!["base", "conv"],
        two_approvers: false,
        modifies: vec![],
        quotes: vec![],
        migrates: vec![],
    }
}

/// precision 14, increment 3e14: amounts around 10^15, where 28-digit decimals run out of digits
pub fn menu_large(a: usize, b: usize) -> Menu {
    let inc = 300_000_000_000_000u128;
    Menu {
        ask_slots: a,
        bid_slots: b,
        prices: vec!["0.00000000000001", "0.00000000000003", "1.00000000000001"],
        sizes: vec![inc, 2 * inc],
        match_sizes: vec![inc, 2 * inc],
        reject_sizes: vec![inc],
        ask_bases: vec!["base", "conv"],
        two_approvers: false,
        modifies: vec![],
        quotes: vec![],
        migrates: vec![],
    }
}

/// the decimal menu for books with two slots on a side: three prices (the equal-but-differently-written
/// pair "1.5" / "1.50" stays in the one-by-one books)
pub fn menu_p2s(a: usize, b: usize) -> Menu {
    Menu { prices: vec!["0.5", "1", "1.5"], ..menu_p2(a, b) }
}

/// precision 2, increment 100
pub fn menu_p3(a: usize, b: usize) -> Menu {
    Menu {
        ask_slots: a,
        bid_slots: b,
        prices: vec!["0.25", "1.05"],
        sizes: vec![100, 200],
        match_sizes: vec![20, 100, 180, 200],
        reject_sizes: vec![100],
        ask_bases: vec!["base", "conv"],
        two_approvers: false,
        modifies: vec![],
        quotes: vec![],
        migrates: vec![],
    }
}

pub fn scen(name: &str, cfg: Cfg, menu: Menu, p: Vec<Act>) -> Scenario {
    let l = alphabet_l(&cfg, &menu);
    let p = probes::minus_l(p, &l);
    Scenario { name: name.to_string(), cfg, l, p, seed: vec![], menu, pre_migrate: None }
}

fn fee_account_swap(cfg: &Cfg) -> Vec<(&'static str, Modify)> {
    let mut v = vec![];
    if let Some((r, _)) = &cfg.ask_fee {
        v.push((
            "ask fee account -> stranger",
            Modify { ask_fee_rate: Some(r.clone()), ask_fee_account: Some(cfg.roles.get("stranger").into()), ..Default::default() },
        ));
    }
    if let Some((r, _)) = &cfg.bid_fee {
        v.push((
            "bid fee account -> stranger",
            Modify { bid_fee_rate: Some(r.clone()), bid_fee_account: Some(cfg.roles.get("stranger").into()), ..Default::default() },
        ));
    }
    v
}

/// the contract base also listed among the convertible denominations
pub fn overlap(mut cfg: Cfg) -> Cfg {
    cfg.convs = vec!["conv".into(), "base".into()];
    cfg
}

/// the quote denomination is the contract's own base denomination (unusual, but nothing forbids it)
pub fn quote_is_base(mut cfg: Cfg) -> Cfg {
    cfg.quotes = vec!["base".into()];
    cfg
}

/// two convertible and two quote denominations
pub fn multi(mut cfg: Cfg) -> Cfg {
    cfg.convs = vec!["conv".into(), "conv2".into()];
    cfg.quotes = vec!["q1".into(), "q2".into()];
    cfg
}

pub fn menu_multi(a: usize, b: usize) -> Menu {
    Menu {
        ask_slots: a,
        bid_slots: b,
        prices: vec!["2", "3"],
        sizes: vec![2],
        match_sizes: vec![1, 2],
        reject_sizes: vec![],
        ask_bases: vec!["base", "conv", "conv2"],
        two_approvers: false,
        modifies: vec![],
        quotes: vec!["q1", "q2"],
        migrates: vec![],
    }
}

/// markers over (base, conv, q1[, conv2, q2]): 'r' restricted, 'a' restricted with required attributes on the marker, 'u' unrestricted marker, 'n' no marker
pub fn with_markers(cfg: Cfg, spec: &str) -> Cfg {
    let mut t = vec![];
    for (d, c) in ["base", "conv", "q1", "conv2", "q2"].iter().zip(spec.chars()) {
        match c {
            'r' => t.push((*d, Marker::Restricted)),
            'a' => t.push((*d, Marker::RestrictedAttrs)),
            'u' => t.push((*d, Marker::Coin)),
            _ => {}
        }
    }
    cfg.markers(&t)
}

pub fn with_attrs(mut cfg: Cfg, ask: &[&str], bid: &[&str]) -> Cfg {
    cfg.ask_attrs = ask.iter().map(|s| s.to_string()).collect();
    cfg.bid_attrs = bid.iter().map(|s| s.to_string()).collect();
    let mut t: BTreeMap<String, Vec<String>> = BTreeMap::new();
    let all: Vec<String> = vec!["kyc".into(), "acc".into(), "extra".into()];
    for r in ["seller1", "seller2", "buyer1", "buyer2"] {
        t.insert(cfg.roles.get(r).to_string(), all.clone());
    }
    t.insert("someattr".into(), vec!["kyc".into()]);
    t.insert("noattr".into(), vec![]);
    // the same attribute name recorded twice (different values on chain), another one missing
    t.insert("dupattr".into(), vec!["kyc".into(), "kyc".into()]);
    cfg.chain.attrs = Arc::new(t);
    cfg
}

/// bids whose fee is zero also arrive with the fee spelled out as a zero coin (a legal request: "fee": {"amount": "0", ...})
pub fn with_explicit_zero_fees(mut s: Scenario) -> Scenario {
    let extra: Vec<Act> = s
        .l
        .iter()
        .filter_map(|a| match &a.req {
            Req::CreateBid { id, base, fee: None, price, quote, quote_size, size } => {
                let funds: Vec<(u128, &str)> = a.funds.iter().map(|c| (c.amount.u128(), c.denom.as_str())).collect();
                Some(Act::new(&a.sender, funds, Req::CreateBid { id: id.clone(), base: base.clone(), fee: Some((quote.clone(), 0)), price: price.clone(), quote: quote.clone(), quote_size: *quote_size, size: *size }))
            }
            _ => None,
        })
        .collect();
    s.l.extend(extra);
    s.name = format!("{}/explicit-zero-fees", s.name);
    s
}

/// S1: legacy orders stored under un-hyphenated ids, plus L requests that address them
pub fn with_legacy_seed(mut s: Scenario) -> Scenario {
    let aid = legacy_ask_key();
    let bid = unhyphen(ID_B2);
    let inc = s.cfg.increment;
    let size = 2 * inc;
    let price = s.menu.prices[0];
    let total = crate::refmodel::parse_dec(price)
        .and_then(|p| p.mul(crate::refmodel::Rat::int(size)?))
        .and_then(|t| t.to_u128())
        .expect("legacy seed total");
    let fee = fee_due(s.cfg.bid_fee.as_ref().map(|f| f.0.as_str()), total);
    let seller = s.cfg.roles.get("seller2").to_string();
    let buyer = s.cfg.roles.get("buyer2").to_string();
    let ask = json!({"id": aid, "owner": seller, "class": "Basic", "base": s.cfg.base, "quote": "q1", "price": price, "size": size.to_string()});
    let mut bidv = json!({"base": {"denom": s.cfg.base, "amount": size.to_string()}, "accumulated_base": "0", "accumulated_quote": "0",
        "accumulated_fee": "0", "fee": null, "id": bid, "owner": buyer, "price": price, "quote": {"denom": "q1", "amount": total.to_string()}});
    if fee > 0 {
        bidv["fee"] = json!({"denom": "q1", "amount": fee.to_string()});
    }
    s.seed.push((crate::refmodel::ask_key(&aid), ask.to_string().into_bytes()));
    s.seed.push((crate::refmodel::bid_key(&bid), bidv.to_string().into_bytes()));
    let exec = s.cfg.roles.get("exec").to_string();
    s.l.push(Act::new(&seller, vec![], Req::CancelAsk { id: aid.clone() }));
    s.l.push(Act::new(&exec, vec![], Req::ExpireAsk { id: aid.clone() }));
    s.l.push(Act::new(&exec, vec![], Req::RejectAsk { id: aid.clone(), size: Some(inc) }));
    s.l.push(Act::new(&buyer, vec![], Req::CancelBid { id: bid.clone() }));
    s.l.push(Act::new(&exec, vec![], Req::ExpireBid { id: bid.clone() }));
    s.l.push(Act::new(&exec, vec![], Req::RejectBid { id: bid.clone(), size: Some(inc) }));
    legacy_spelling_matches(&mut s);
    s.name = format!("{}+legacy", s.name);
    s
}

/// match requests that name the canonical spelling of the legacy orders' ids (no such order is on the book)
fn legacy_spelling_matches(s: &mut Scenario) {
    let exec = s.cfg.roles.get("exec").to_string();
    let inc = s.cfg.increment;
    for pr in s.menu.prices.clone() {
        for b in 0..s.menu.bid_slots.max(1) {
            s.l.push(Act::new(&exec, vec![], Req::Match { ask_id: ID_LEGACY_ASK.into(), bid_id: BID_IDS[b].into(), price: pr.to_string(), size: inc }));
        }
        for a in 0..s.menu.ask_slots.max(1) {
            s.l.push(Act::new(&exec, vec![], Req::Match { ask_id: ASK_IDS[a].into(), bid_id: ID_B2.into(), price: pr.to_string(), size: inc }));
        }
        s.l.push(Act::new(&exec, vec![], Req::Match { ask_id: ID_LEGACY_ASK.into(), bid_id: ID_B2.into(), price: pr.to_string(), size: inc }));
    }
}

/// S2: a book carried over from contract version `version`: a legacy-id ask, an old-format
/// (event-log) bid under a legacy un-hyphenated id with one Reject event, and an old-format bid
/// under a canonical id with one Fill event. The exploration starts after `migrate`.
pub fn with_old_format_seed(mut s: Scenario, version: &str) -> Scenario {
    use crate::mig::{ev_fill, ev_reject};
    use crate::refmodel::{parse_dec, Rat};
    let inc = s.cfg.increment;
    let size = 3 * inc;
    let price = s.menu.prices[0];
    let p = parse_dec(price).expect("seed price");
    let amt = |n: u128| p.mul(Rat::int(n).unwrap()).and_then(|t| t.to_u128()).expect("seed total");
    let total = amt(size);
    let q1 = amt(inc);
    let fee = fee_due(s.cfg.bid_fee.as_ref().map(|f| f.0.as_str()), total);
    let held_after = if fee > 0 { Rat::new((total - q1) as i128, total as i128).unwrap().mul(Rat::int(fee).unwrap()).unwrap().round_half_away().unwrap() } else { 0 };
    let ev_fee = if fee > 0 { Some(fee - held_after) } else { None };
    let held_after2 = if fee > 0 { Rat::new((total - 2 * q1) as i128, total as i128).unwrap().mul(Rat::int(fee).unwrap()).unwrap().round_half_away().unwrap() } else { 0 };
    let ev_fee2 = if fee > 0 { Some(held_after - held_after2) } else { None };
    let seller = s.cfg.roles.get("seller2").to_string();
    let buyer2 = s.cfg.roles.get("buyer2").to_string();
    let buyer1 = s.cfg.roles.get("buyer1").to_string();
    let exec = s.cfg.roles.get("exec").to_string();
    let aid = legacy_ask_key();
    let bid = unhyphen(ID_B2);
    let feev = if fee > 0 { json!({"denom": "q1", "amount": fee.to_string()}) } else { serde_json::Value::Null };
    let ask = json!({"id": aid, "owner": seller, "class": "Basic", "base": s.cfg.base, "quote": "q1", "price": price, "size": (2 * inc).to_string()});
    let v2 = |id: &str, owner: &str, events: Vec<serde_json::Value>| {
        json!({"base": {"denom": s.cfg.base, "amount": size.to_string()}, "events": events, "fee": feev, "id": id, "owner": owner, "price": price,
            "quote": {"denom": "q1", "amount": total.to_string()}})
    };
    let b_legacy = v2(&bid, &buyer2, vec![ev_reject(inc, q1, ev_fee)]);
    let b_canon = v2(ID_B3, &buyer1, vec![ev_fill(inc, q1, ev_fee.filter(|f| *f > 0), price), ev_reject(inc, q1, ev_fee2)]);
    s.seed.push((crate::refmodel::ask_key(&aid), ask.to_string().into_bytes()));
    s.seed.push((crate::refmodel::bid_key(&bid), b_legacy.to_string().into_bytes()));
    s.seed.push((crate::refmodel::bid_key(ID_B3), b_canon.to_string().into_bytes()));
    // a mixed book: one bid already in the current format, under an id that sorts before the others
    let b_current = json!({"base": {"denom": s.cfg.base, "amount": size.to_string()}, "accumulated_base": "0", "accumulated_quote": "0", "accumulated_fee": "0",
        "fee": feev, "id": ID_A2, "owner": buyer2, "price": price, "quote": {"denom": "q1", "amount": total.to_string()}});
    s.seed.push((crate::refmodel::bid_key(ID_A2), b_current.to_string().into_bytes()));
    s.l.push(Act::new(&buyer2, vec![], Req::CancelBid { id: ID_A2.into() }));
    s.l.push(Act::new(&exec, vec![], Req::RejectBid { id: ID_A2.into(), size: Some(inc) }));
    s.l.push(Act::new(&seller, vec![], Req::CancelAsk { id: aid.clone() }));
    s.l.push(Act::new(&exec, vec![], Req::ExpireAsk { id: aid.clone() }));
    s.l.push(Act::new(&exec, vec![], Req::RejectAsk { id: aid.clone(), size: Some(inc) }));
    for (id, owner) in [(bid.as_str(), buyer2.as_str()), (ID_B3, buyer1.as_str())] {
        s.l.push(Act::new(owner, vec![], Req::CancelBid { id: id.into() }));
        s.l.push(Act::new(&exec, vec![], Req::ExpireBid { id: id.into() }));
        s.l.push(Act::new(&exec, vec![], Req::RejectBid { id: id.into(), size: Some(inc) }));
    }
    for a in 0..s.menu.ask_slots {
        for pr in &s.menu.prices {
            for sz in &s.menu.match_sizes {
                s.l.push(Act::new(&exec, vec![], Req::Match { ask_id: ASK_IDS[a].into(), bid_id: ID_B3.into(), price: pr.to_string(), size: *sz }));
            }
        }
    }
    legacy_spelling_matches(&mut s);
    s.pre_migrate = Some((version.to_string(), json!({})));
    s.name = format!("{}+carried-over-from-{version}", s.name);
    s
}

/// migrations that may happen in the middle of a history (the stored version is already current)
pub fn mid_history_migrations() -> Vec<(&'static str, serde_json::Value)> {
    vec![
        ("clear the bid fee", json!({"bid_fee_rate": "", "bid_fee_account": ""})),
        ("clear the ask fee", json!({"ask_fee_rate": "", "ask_fee_account": ""})),
        ("no approvers", json!({"approvers": []})),
        ("replace the approvers", json!({"approvers": ["approver2"]})),
    ]
}

fn ledger_scenarios(tier: Tier, extra_probes: &dyn Fn(&Cfg, &Menu) -> Vec<Act>) -> Vec<Scenario> {
    let mut v = vec![];
    let mk = |name: &str, cfg: Cfg, mut menu: Menu, v: &mut Vec<Scenario>| {
        menu.modifies = fee_account_swap(&cfg);
        let mut p = extra_probes(&cfg, &menu);
        p.extend(probes::match_respell(&alphabet_l(&cfg, &menu)));
        p.extend(probes::misc(&cfg, &alphabet_l(&cfg, &menu)));
        if !menu.quotes.is_empty() {
            // several quote denominations: bids whose fee coin is off (in particular: names the other quote)
            p.extend(probes::fee_creates(&cfg, &menu));
        }
        v.push(scen(name, cfg, menu, p));
    };
    mk("B21/P1/F1/R0", Cfg::new(0, 2, ("0.25", "0.25"), "R0"), menu_p1(2, 1), &mut v);
    mk("B12/P1/F1/R0", Cfg::new(0, 2, ("0.25", "0.25"), "R0"), menu_p1(1, 2), &mut v);
    mk("B12/P1/F2/R4", Cfg::new(0, 2, ("0.1", "0.1"), "R4"), Menu { prices: vec!["2", "7"], ..menu_p1(1, 2) }, &mut v);
    mk("B11/P0/F3/R0", Cfg::new(0, 1, ("0.5", "0.5"), "R0"), menu_p0(1, 1, vec!["1", "2"]), &mut v);
    mk("B11/P1/F1/R2/rur", with_markers(Cfg::new(0, 2, ("0.25", "0.25"), "R2"), "rur"), menu_p1(1, 1), &mut v);
    mk("B11/P1/F1/R0/aua", with_markers(Cfg::new(0, 2, ("0.25", "0.25"), "R0"), "aua"), Menu { prices: vec!["2"], ..menu_p1(1, 1) }, &mut v);
    mk("B11/P2/F1/R0", Cfg::new(1, 10, ("0.25", "0.25"), "R0"), menu_p2(1, 1), &mut v);
    // (no fees: a fractional executed amount is not stopped by the fee computation)
    mk("B11/P2/F0/R0", Cfg::new(1, 10, ("", ""), "R0"), Menu { prices: vec!["0.5", "1", "1.5"], match_sizes: vec![1, 5, 10, 15, 20], ..menu_p2(1, 1) }, &mut v);
    // size increment a proper multiple of 10^precision: "price x increment whole" and "price within the precision" differ
    mk("B11/P2/lot-above-tick", Cfg::new(1, 20, ("0.25", "0.25"), "R0"), Menu { prices: vec!["0.5", "1.5"], sizes: vec![20, 40], match_sizes: vec![10, 20, 40], reject_sizes: vec![20], ..menu_p2(1, 1) }, &mut v);
    mk("B11/p14/large-amounts", Cfg::new(14, 300_000_000_000_000, ("0.25", "0.25"), "R0"), menu_large(1, 1), &mut v);
    mk("B11/multi-denom/nrnur", with_markers(multi(Cfg::new(0, 2, ("0.25", "0.25"), "R0")), "nrnur"), menu_multi(1, 1), &mut v);
    mk("B11/base-also-convertible", overlap(Cfg::new(0, 2, ("0.25", "0.25"), "R0")), menu_p1(1, 1), &mut v);
    mk("B11/quote-is-base", quote_is_base(Cfg::new(0, 2, ("0.25", "0.25"), "R0")), menu_p1(1, 1), &mut v);
    {
        // fees that round to zero, written out as a zero coin
        let cfg = Cfg::new(0, 1, ("0.1", "0.1"), "R0");
        let mut menu = menu_p0(1, 1, vec!["2", "3"]);
        menu.modifies = fee_account_swap(&cfg);
        let mut p = extra_probes(&cfg, &menu);
        p.extend(probes::match_respell(&alphabet_l(&cfg, &menu)));
        v.push(with_explicit_zero_fees(scen("B11/P0/F2/R0", cfg, menu, p)));
    }
    mk("B11/P0/rates-1.25-1.5", Cfg::new(0, 1, ("1.25", "1.5"), "R0"), Menu { sizes: vec![4, 10], match_sizes: vec![1, 4, 10], ..menu_p0(1, 1, vec!["1", "2"]) }, &mut v);
    v.extend(marker_family(extra_probes));
    mk("B11/P1/F1/R5", Cfg::new(0, 2, ("0.25", "0.25"), "R5"), menu_p1(1, 1), &mut v);
    mk("B11/P1/F1/R6", Cfg::new(0, 2, ("0.25", "0.25"), "R6"), menu_p1(1, 1), &mut v);
    {
        // upgrades in the middle of a history, and a book carried over from an old version
        let cfg = Cfg::new(0, 2, ("0.25", "0.25"), "R0");
        let menu = Menu { migrates: mid_history_migrations(), ..menu_p1(1, 1) };
        let mut p = extra_probes(&cfg, &menu);
        p.extend(probes::match_respell(&alphabet_l(&cfg, &menu)));
        v.push(scen("B11/P1/F1/R0/mid-history-migrations", cfg, menu, p));
        let cfg = with_markers(Cfg::new(0, 1, ("0.1", "0.1"), "R0"), "rrr");
        let menu = Menu { migrates: mid_history_migrations(), ..menu_p0(1, 1, vec!["2", "5"]) };
        let p = extra_probes(&cfg, &menu);
        v.push(scen("B11/P0/F2/R0/rrr/mid-history-migrations", cfg, menu, p));
        let cfg = Cfg::new(0, 2, ("0.25", "0.25"), "R0");
        let menu = menu_p1(1, 1);
        let p = extra_probes(&cfg, &menu);
        v.push(with_old_format_seed(scen("B11/P1/F1/R0", cfg, menu, p), "0.18.2"));
    }
    if tier == Tier::Thorough {
        mk("B21/multi-denom", multi(Cfg::new(0, 2, ("0.25", "0.25"), "R0")), menu_multi(2, 1), &mut v);
        mk("B12/multi-denom/rrrnn", with_markers(multi(Cfg::new(0, 2, ("0.25", "0.25"), "R1")), "rrrnn"), menu_multi(1, 2), &mut v);
        mk("B22/P1/F1/R0", Cfg::new(0, 2, ("0.25", "0.25"), "R0"), menu_p1(2, 2), &mut v);
        mk("B21/P1/F2/R4", Cfg::new(0, 2, ("0.1", "0.1"), "R4"), Menu { prices: vec!["2", "7"], ..menu_p1(2, 1) }, &mut v);
        mk("B12/P1big/F1/R0", Cfg::new(0, 2, ("0.25", "0.25"), "R0"), menu_p1_big(1, 2), &mut v);
        mk("B12/P1/third/R0", Cfg::new(0, 2, ("0.333", "0.333"), "R0"), Menu { sizes: vec![2, 4, 6], match_sizes: vec![1, 2, 3, 4, 5, 6], ..menu_p1(1, 2) }, &mut v);
        mk("B12/P2/F1/R0", Cfg::new(1, 10, ("0.25", "0.25"), "R0"), menu_p2s(1, 2), &mut v);
        mk("B21/P2/F1/R1", Cfg::new(1, 10, ("0.25", "0.25"), "R1"), menu_p2s(2, 1), &mut v);
        mk("B12/P0/F3/R2", Cfg::new(0, 1, ("0.5", "0.5"), "R2"), menu_p0(1, 2, vec!["1", "2", "3"]), &mut v);
        mk("B21/P1/F1/R3/rrr", with_markers(Cfg::new(0, 2, ("0.25", "0.25"), "R3"), "rrr"), menu_p1(2, 1), &mut v);
        mk("B11/P3/F2/R0", Cfg::new(2, 100, ("0.1", "0.1"), "R0"), menu_p3(1, 1), &mut v);
        let s = scen("B12/P1/F1/R0", Cfg::new(0, 2, ("0.25", "0.25"), "R0"), menu_p1(1, 2), vec![]);
        v.push(with_legacy_seed(s));
    }
    v
}

/// the upgrade family: migrations in the middle of a history, and a book carried over from 0.18.2
fn upgrade_family(probes_of: &dyn Fn(&Cfg, &Menu) -> Vec<Act>, restricted: bool) -> Vec<Scenario> {
    let mut v = vec![];
    let cfg = Cfg::new(0, 2, ("0.25", "0.25"), "R0");
    let menu = Menu { migrates: mid_history_migrations(), ..menu_p1(1, 1) };
    let p = probes_of(&cfg, &menu);
    v.push(scen("B11/P1/F1/R0/mid-history-migrations", cfg, menu, p));
    if restricted {
        let cfg = with_markers(Cfg::new(0, 1, ("0.1", "0.1"), "R0"), "rrr");
        let menu = Menu { migrates: mid_history_migrations(), ..menu_p0(1, 1, vec!["2", "5"]) };
        let p = probes_of(&cfg, &menu);
        v.push(scen("B11/P0/F2/R0/rrr/mid-history-migrations", cfg, menu, p));
    }
    let cfg = Cfg::new(0, 2, ("0.25", "0.25"), "R0");
    let menu = menu_p1(1, 1);
    let p = probes_of(&cfg, &menu);
    v.push(with_old_format_seed(scen("B11/P1/F1/R0", cfg, menu, p), "0.18.2"));
    // ... and from the oldest supported version, with a smaller menu
    let cfg = Cfg::new(0, 2, ("0.25", "0.25"), "R0");
    let menu = Menu { prices: vec!["2"], ..menu_p1(1, 1) };
    let p = probes_of(&cfg, &menu);
    v.push(with_old_format_seed(scen("B11/P1-one-price/F1/R0", cfg, menu, p), "0.16.2"));
    v
}

/// Wide-value closures: the same tiny book (one ask slot, one bid slot, one order size) explored to
/// fixpoint for many sizes, price pairs and fee rates — values a small regular alphabet never
/// contains (around powers of ten and of two, u32 / u64 boundaries, long decimals).
/// the sweep scenarios whose trigger is a particular spelling or magnitude rather than a rate / price grid: small enough for every quick tier
pub fn pinned_sweep() -> Vec<Scenario> {
    value_sweep(Tier::Quick)
        .into_iter()
        .filter(|s| {
            ["prices1.0000000000000000000000000000-", "rates0.0000000000000000025", "rates0.0010000000000000005", "size18446744073709551617/prices1-3", "size400000000000000000001/", "size30000000000000000000000000000/", "size1208925819614629174706181/prices999-1000/rates0.999"]
                .iter()
                .any(|k| s.name.contains(k))
        })
        .collect()
}

/// reject / match requests of one unit on every slot, at every price of the menu
fn unit_probes(cfg: &Cfg, m: &Menu) -> Vec<Act> {
    let exec = cfg.roles.get("exec");
    let mut v = vec![];
    for s in 0..m.ask_slots {
        v.push(Act::new(exec, vec![], Req::RejectAsk { id: ASK_IDS[s].into(), size: Some(1) }));
    }
    for s in 0..m.bid_slots {
        v.push(Act::new(exec, vec![], Req::RejectBid { id: BID_IDS[s].into(), size: Some(1) }));
    }
    for a in 0..m.ask_slots {
        for b in 0..m.bid_slots {
            for p in &m.prices {
                v.push(Act::new(exec, vec![], Req::Match { ask_id: ASK_IDS[a].into(), bid_id: BID_IDS[b].into(), price: p.to_string(), size: 1 }));
            }
        }
    }
    v
}

pub fn value_sweep(tier: Tier) -> Vec<Scenario> {
    let leak = |s: String| -> &'static str { Box::leak(s.into_boxed_str()) };
    let mut v = vec![];
    let sizes: Vec<u128> = if tier == Tier::Quick {
        vec![1, 3, 7, 10, 99, 100, 101, 1000, 65_536, (1u128 << 32) + 1, 1_000_000_000_000_000, 3_000_000_000_000_000_000_007]
    } else {
        let mut z: Vec<u128> = (1..=33).collect();
        z.extend([50, 63, 64, 65, 99, 100, 101, 127, 128, 129, 255, 256, 257, 999, 1000, 1001, 4095, 4096, 9999, 10_000, 10_001, 65_535, 65_536, 65_537, 999_999, 1_000_000,
            (1u128 << 31) - 1, 1u128 << 31, (1u128 << 32) - 1, 1u128 << 32, (1u128 << 32) + 1, 1_000_000_000_000, (1u128 << 53) + 1, 1_000_000_000_000_000, (1u128 << 63) - 1, 1u128 << 63, (1u128 << 64) - 1, 1u128 << 64, (1u128 << 64) + 1, 3_000_000_000_000_000_000_007, (1u128 << 80) + 5, (1u128 << 94) + 3]);
        z
    };
    let price_pairs: Vec<(&str, &str)> = if tier == Tier::Quick {
        vec![("1", "2"), ("9", "10"), ("99", "101")]
    } else {
        vec![("1", "2"), ("2", "3"), ("9", "10"), ("10", "11"), ("99", "101"), ("999", "1000"), ("1", "1000000"), ("7", "7")]
    };
    // (rate pairs: ask, bid) incl. more than four decimals, trailing zeros, above 1
    let rates: Vec<(&str, &str)> = if tier == Tier::Quick {
        vec![("0.25", "0.25"), ("0.001", "0.01"), ("0.999", "0.5"), ("0.00125", "0.00005"), ("1.25", "0.010")]
    } else {
        vec![("0.25", "0.25"), ("0.001", "0.01"), ("0.999", "0.5"), ("0.1", "0.1"), ("0.333", "0.667"), ("1", "1"), ("0.0000001", "0.5"), ("0.00125", "0.00005"), ("1.25", "0.010"), ("2", "0.2500"), ("0.0100", "1.5")]
    };
    let mut combos: Vec<(u128, &str, &str, &str, &str)> = vec![];
    for sz in &sizes {
        for (lo, hi) in &price_pairs {
            for (ra, rb) in &rates {
                combos.push((*sz, *lo, *hi, *ra, *rb));
            }
        }
    }
    if tier == Tier::Quick {
        // amounts whose product with a three-decimal rate no longer fits a 96-bit decimal mantissa (defect D7 showed here)
        combos.push(((1u128 << 80) + 5, "999", "1000", "0.999", "0.5"));
        combos.push(((1u128 << 80) + 5, "999", "1000", "0.333", "0.667"));
    }
    // rates with more decimal places than an 18-digit fixed-point type carries, on amounts where those places decide the rounding
    for sz in [1_000_000_000_000_000_000u128, (1u128 << 64) + 1] {
        combos.push((sz, "1", "2", "0.0000000000000000025", "0.0000000000000000015"));
        combos.push((sz, "1", "2", "0.0010000000000000005", "0.0000000000000000009"));
    }
    // prices spelled with as many decimal places as a decimal carries (a long mantissa for a small number), on sizes
    // from 4e10 to above 2^64; an odd size at price 1 with rate 0.5 (the fee share of a one-unit step sits just below a half)
    for sz in [40_000_000_000u128, 10_000_000_000_000_000_000, (1u128 << 64) + 1] {
        combos.push((sz, "1.0000000000000000000000000000", "2.000000000000000000", "0.25", "0.5"));
    }
    combos.push(((1u128 << 64) + 1, "1", "3", "0.25", "0.5"));
    combos.push((400_000_000_000_000_000_001, "1", "2", "0.999", "0.5"));
    // a quote amount above 1.5e28 returned in thirds (a 28-digit ratio of a third loses whole units there)
    combos.push((30_000_000_000_000_000_000_000_000_000, "1", "1", "", ""));
    {
        {
            for (sz, lo, hi, ra, rb) in &combos {
                // keep every amount inside the reference model's range
                let hi_n: u128 = hi.parse().unwrap_or(1);
                // (and inside the contract's own 96-bit decimal capacity: beyond it requests are refused as overflowing)
                if sz.checked_mul(hi_n).map_or(true, |t| t > (1u128 << 95)) {
                    continue;
                }
                let cfg = Cfg::new(0, 1, (ra, rb), "R0");
                // (a unit match size on a large order would make every remainder 1..size reachable)
                let mut ms: Vec<u128> = if *sz <= 40 { vec![1, (sz + 1) / 2, *sz] } else { vec![(sz + 1) / 2, sz - sz / 3, *sz] };
                ms.sort();
                ms.dedup();
                let rj = (sz / 3).max(1);
                let menu = Menu {
                    ask_slots: 1,
                    bid_slots: 1,
                    prices: if lo == hi { vec![*lo] } else { vec![*lo, *hi] },
                    sizes: vec![*sz],
                    match_sizes: ms,
                    reject_sizes: vec![rj],
                    ask_bases: vec!["base", "conv"],
                    two_approvers: false,
                    modifies: vec![],
                    quotes: vec![],
                    migrates: vec![],
                };
                // one-unit steps as probes (as L requests they would make every remainder of a large order reachable)
                let mut p = unit_probes(&cfg, &menu);
                // fee-deviant creates where the rate has more decimal places than common fixed-point types carry
                if ra.len() > 12 || rb.len() > 12 {
                    p.extend(probes::fee_creates(&cfg, &menu));
                }
                v.push(scen(leak(format!("sweep/size{sz}/prices{lo}-{hi}/rates{ra}-{rb}")), cfg, menu, p));
            }
        }
    }
    // decimals: precision 3, increment 1000, long price strings
    for (k, (lo, hi)) in [("0.001", "0.999"), ("1.001", "1.01"), ("12.345", "12.35"), ("0.125", "1000.5")].iter().enumerate() {
        if tier == Tier::Quick && k > 1 {
            break;
        }
        for mult in if tier == Tier::Quick { vec![1u128, 7] } else { vec![1u128, 2, 3, 7, 10, 64, 1000, 10u128.pow(22) + 1] } {
            let cfg = Cfg::new(3, 1000, ("0.25", "0.001"), "R0");
            let sz = 1000 * mult;
            let menu = Menu {
                ask_slots: 1,
                bid_slots: 1,
                prices: vec![*lo, *hi],
                sizes: vec![sz],
                // (a one-lot step on a large order would make every remainder reachable: thousands of levels per side)
                match_sizes: if mult <= 10 { vec![1000.min(sz), sz / 2, sz, 125.min(sz)] } else { vec![sz / 2, sz, 125, (sz / 3000) * 1000, sz / 2 + 1] },
                reject_sizes: vec![if mult <= 10 { 1000 } else { (sz / 4000) * 1000 }],
                ask_bases: vec!["base", "conv"],
                two_approvers: false,
                modifies: vec![],
                quotes: vec![],
                migrates: vec![],
            };
            v.push(scen(leak(format!("sweep/p3/size{sz}/prices{lo}-{hi}")), cfg, menu, vec![]));
        }
    }
    v
}

/// all eight restricted / unrestricted-marker assignments of (base, conv, quote) on the smallest book
pub fn marker_family(probes_of: &dyn Fn(&Cfg, &Menu) -> Vec<Act>) -> Vec<Scenario> {
    let mut v = vec![];
    for a in ['r', 'u'] {
        for b in ['r', 'u'] {
            for c in ['r', 'u'] {
                let spec: String = [a, b, c].iter().collect();
                let cfg = with_markers(Cfg::new(0, 1, ("0.25", "0.25"), "R0"), &spec);
                let mut menu = menu_p0(1, 1, vec!["2", "4"]);
                menu.sizes = vec![1, 2];
                menu.match_sizes = vec![1, 2];
                let p = probes_of(&cfg, &menu);
                v.push(scen(&format!("B11/P0/F1/{spec}"), cfg, menu, p));
            }
        }
    }
    v
}

/// books at high price precision (increment 10^precision), for the admission rules
pub fn high_precision(probes_of: &dyn Fn(&Cfg, &Menu) -> Vec<Act>, precisions: &[u32]) -> Vec<Scenario> {
    let mut v = vec![];
    for p in precisions {
        let inc = 10u128.pow(*p);
        let leak = |s: String| -> &'static str { Box::leak(s.into_boxed_str()) };
        let prices: Vec<&'static str> = vec![leak(crate::c13::price_str(1, *p)), leak(crate::c13::price_str(inc + 1, *p))];
        let cfg = Cfg::new(*p as u128, inc, ("0.25", "0.25"), "R0");
        let menu = Menu {
            ask_slots: 1,
            bid_slots: 1,
            prices,
            sizes: vec![inc, 2 * inc],
            match_sizes: vec![inc],
            reject_sizes: vec![],
            ask_bases: vec!["base", "conv"],
            two_approvers: false,
            modifies: vec![],
            quotes: vec![],
            migrates: vec![],
        };
        let pr = probes_of(&cfg, &menu);
        v.push(scen(&format!("B11/p{p}/inc1e{p}"), cfg, menu, pr));
    }
    v
}

fn no_probes(_: &Cfg, _: &Menu) -> Vec<Act> {
    vec![]
}

pub fn plan(prop: &str, tier: Tier) -> Plan {
    let th = tier == Tier::Thorough;
    match prop {
        "C01" | "C02" | "C17" | "C11" => {
            let mut s = if prop == "C17" { ledger_scenarios(tier, &|c, m| probes::reversals(c, m)) } else { ledger_scenarios(tier, &no_probes) };
            if prop == "C11" && th {
                s.push(scen("B22/P1/F1/R4", Cfg::new(0, 2, ("0.25", "0.25"), "R4"), menu_p1(2, 2), vec![]));
            }
            if matches!(prop, "C01" | "C02") {
                s.extend(value_sweep(tier));
            } else if th {
                // (C11 and C17 do not judge amounts beyond what C01 / C02 / C04 / C09 judge on the same transitions: the
                // several thousand thorough sweep scenarios are left to those four, here the quick sweep is explored)
                s.extend(value_sweep(Tier::Quick));
            } else {
                s.extend(pinned_sweep());
            }
            if th {
                // three orders on one side (one owner holding two of them)
                let slim = |m: Menu| Menu { prices: vec!["2", "3"], sizes: vec![2], match_sizes: vec![1, 2], reject_sizes: vec![], ..m };
                s.push(scen("B31/P1/F1/R0", Cfg::new(0, 2, ("0.25", "0.25"), "R0"), slim(menu_p1(3, 1)), vec![]));
                s.push(scen("B13/P1/F1/R0", Cfg::new(0, 2, ("0.25", "0.25"), "R0"), slim(menu_p1(1, 3)), vec![]));
            }
            Plan { scenarios: s, hooks: vec![] }
        }
        "C04" => {
            let mut s = ledger_scenarios(tier, &|c, m| probes::reversals(c, m));
            if th {
                s.extend(value_sweep(tier));
            } else {
                s.extend(pinned_sweep());
            }
            Plan { scenarios: s, hooks: vec![] }
        }
        "C03" => {
            let mut v = vec![];
            let mk = |name: &str, cfg: Cfg, menu: Menu, v: &mut Vec<Scenario>| {
                let p = probes::match_product(&cfg, &menu, th);
                v.push(scen(name, cfg, menu, p));
            };
            mk("B21/P1/F1/R0", Cfg::new(0, 2, ("0.25", "0.25"), "R0"), menu_p1(2, 1), &mut v);
            mk("B12/P1/F1/R0", Cfg::new(0, 2, ("0.25", "0.25"), "R0"), menu_p1(1, 2), &mut v);
            mk("B11/P2/F0/R0", Cfg::new(1, 10, ("", ""), "R0"), menu_p2(1, 1), &mut v);
            mk("B11/P0/F3/R0", Cfg::new(0, 1, ("0.5", "0.5"), "R0"), menu_p0(1, 1, vec!["1", "2"]), &mut v);
            mk("B11/P0/F3/R0/rrr", with_markers(Cfg::new(0, 1, ("0.5", "0.5"), "R0"), "rrr"), menu_p0(1, 1, vec!["1", "2"]), &mut v);
            mk("B11/multi-denom", multi(Cfg::new(0, 2, ("0.25", "0.25"), "R0")), menu_multi(1, 1), &mut v);
            {
                // bids whose fill fee is zero must still match after the bid fee was switched off by an upgrade
                let cfg = Cfg::new(0, 1, ("0.1", "0.1"), "R0");
                let menu = Menu { migrates: mid_history_migrations(), ..menu_p0(1, 1, vec!["2", "5"]) };
                let mut p = probes::match_product(&cfg, &menu, false);
                p.extend(probes::fee_creates(&cfg, &menu));
                v.push(scen("B11/P0/F2/R0/mid-history-migrations", cfg, menu, p));
                // (the larger carried-over book with the full match product costs 20 s: thorough only)
                v.extend(upgrade_family(&|c, m| probes::match_product(c, m, false), false).into_iter().skip(1).filter(|s| th || !s.name.contains("0.18.2")));
            }
            // sizes around and above 2^63 / 2^64 (the sweep's L matches: eligible ones must be carried out)
            v.extend(value_sweep(Tier::Quick).into_iter().filter(|s| {
                ["size4294967297/prices1-2/rates0.25", "size1000000000000000/prices9-10/rates0.25", "size3000000000000000000007/prices1-2/rates0.25", "size1208925819614629174706181/prices999-1000/rates0.999"].iter().any(|k| s.name.contains(k))
            }));
            {
                let big = |sz: u128, name: &str| {
                    let cfg = Cfg::new(0, 1, ("", ""), "R0");
                    let menu = Menu { sizes: vec![sz], match_sizes: vec![sz / 2, sz], reject_sizes: vec![], ..menu_p0(1, 1, vec!["2", "4"]) };
                    let p = probes::match_product(&cfg, &menu, false);
                    scen(name, cfg, menu, p)
                };
                v.push(big(1u128 << 63, "B11/P0/F0/size-2^63"));
                v.push(big((1u128 << 64) + 100, "B11/P0/F0/size-2^64+100"));
            }
            if th {
                mk("B21/multi-denom", multi(Cfg::new(0, 2, ("0.25", "0.25"), "R0")), menu_multi(2, 1), &mut v);
                // (the full match product on two-sided decimal books was measured at 3.7e9 transitions per book)
                mk("B12/P2-two-prices/F1/R0", Cfg::new(1, 10, ("0.25", "0.25"), "R0"), Menu { prices: vec!["1", "1.5"], match_sizes: vec![5, 10, 20], ..menu_p2(1, 2) }, &mut v);
                mk("B21/P2-two-prices/F0/R3", Cfg::new(1, 10, ("", ""), "R3"), Menu { prices: vec!["0.5", "1.5"], match_sizes: vec![2, 10, 20], ..menu_p2(2, 1) }, &mut v);
                mk("B11/P3/F1/R0", Cfg::new(2, 100, ("0.25", "0.25"), "R0"), menu_p3(1, 1), &mut v);
                mk("B12/P1big/F2/R0", Cfg::new(0, 2, ("0.1", "0.1"), "R0"), menu_p1_big(1, 2), &mut v);
            }
            Plan { scenarios: v, hooks: vec![] }
        }
        "C05" => {
            let mut v = vec![];
            for rv in ["R0", "R1", "R3", "R4"] {
                let cfg = Cfg::new(0, 2, ("0.25", "0.25"), rv);
                let r = cfg.roles.clone();
                let mut menu = menu_p1(1, 1);
                if !th {
                    menu.prices = vec!["2"];
                }
                menu.two_approvers = true;
                menu.modifies = vec![
                    ("executors := [exec, exec2]", Modify { executors: Some(vec![r.get("exec").into(), r.get("exec2").into()]), ..Default::default() }),
                    ("executors := [exec2]", Modify { executors: Some(vec![r.get("exec2").into()]), ..Default::default() }),
                    ("approvers := [approver2]", Modify { approvers: Some(vec![r.get("approver2").into()]), ..Default::default() }),
                    ("approvers := [approver, approver2, stranger]", Modify { approvers: Some(vec![r.get("approver").into(), r.get("approver2").into(), r.get("stranger").into()]), ..Default::default() }),
                ];
                let mut l = alphabet_l(&cfg, &menu);
                // everything an executor does can also be done by exec2 (once it is one)
                let ex = r.get("exec").to_string();
                let extra: Vec<Act> = l.iter().filter(|a| a.sender == ex && !matches!(a.req, Req::CreateAsk { .. } | Req::CreateBid { .. } | Req::CancelAsk { .. } | Req::CancelBid { .. } | Req::ApproveAsk { .. })).map(|a| a.with_sender(r.get("exec2"))).collect();
                l.extend(extra);
                let p = probes::minus_l(probes::senders(&cfg, &l), &l);
                v.push(Scenario { name: format!("B11/P1/F1/{rv}/roles"), cfg, l, p, seed: vec![], menu, pre_migrate: None });
            }
            {
                // nobody is a configured approver: nobody can approve
                let mut cfg = Cfg::new(0, 2, ("0.25", "0.25"), "R0");
                cfg.approvers = vec![];
                let mut menu = menu_p1(1, 1);
                menu.prices = vec!["2"];
                menu.two_approvers = true;
                let l = alphabet_l(&cfg, &menu);
                let p = probes::minus_l(probes::senders(&cfg, &l), &l);
                v.push(Scenario { name: "B11/P1/F1/R0/no-approvers".into(), cfg, l, p, seed: vec![], menu, pre_migrate: None });
                // roles after an upgrade in the middle of a history
                let cfg = Cfg::new(0, 2, ("0.25", "0.25"), "R0");
                let mut menu = menu_p1(1, 1);
                menu.prices = vec!["2"];
                menu.two_approvers = true;
                menu.migrates = mid_history_migrations();
                let l = alphabet_l(&cfg, &menu);
                let p = probes::minus_l(probes::senders(&cfg, &l), &l);
                v.push(Scenario { name: "B11/P1/F1/R0/mid-history-migrations".into(), cfg, l, p, seed: vec![], menu, pre_migrate: None });
            }
            if th {
                let cfg = Cfg::new(0, 2, ("0.25", "0.25"), "R0");
                let menu = menu_p1(2, 1);
                let l = alphabet_l(&cfg, &menu);
                let p = probes::minus_l(probes::senders(&cfg, &l), &l);
                v.push(Scenario { name: "B21/P1/F1/R0/senders".into(), cfg, l, p, seed: vec![], menu, pre_migrate: None });
                let cfg = Cfg::new(0, 2, ("0.25", "0.25"), "R0");
                let menu = menu_p1(1, 2);
                let l = alphabet_l(&cfg, &menu);
                let p = probes::minus_l(probes::senders(&cfg, &l), &l);
                v.push(Scenario { name: "B12/P1/F1/R0/senders".into(), cfg, l, p, seed: vec![], menu, pre_migrate: None });
            }
            Plan { scenarios: v, hooks: vec![] }
        }
        "C06" => {
            let mut v = vec![];
            let mk = |name: &str, cfg: Cfg, mut menu: Menu, v: &mut Vec<Scenario>| {
                menu.modifies = fee_account_swap(&cfg);
                v.push(scen(name, cfg, menu, vec![]));
            };
            mk("B21/P1/F1/R0", Cfg::new(0, 2, ("0.25", "0.25"), "R0"), menu_p1(2, 1), &mut v);
            mk("B12/P1/F1/R0", Cfg::new(0, 2, ("0.25", "0.25"), "R0"), menu_p1(1, 2), &mut v);
            mk("B11/P2/F1/R0", Cfg::new(1, 10, ("0.25", "0.25"), "R0"), menu_p2(1, 1), &mut v);
            mk("B11/P1/F0/R0/rrr", with_markers(Cfg::new(0, 2, ("", ""), "R0"), "rrr"), menu_p1(1, 1), &mut v);
            mk("B11/P1/F1/R0/urn", with_markers(Cfg::new(0, 2, ("0.25", "0.25"), "R0"), "urn"), menu_p1(1, 1), &mut v);
            mk("B11/P3/F2/R0", Cfg::new(2, 100, ("0.1", "0.1"), "R0"), menu_p3(1, 1), &mut v);
            mk("B11/multi-denom/nrnur", with_markers(multi(Cfg::new(0, 2, ("0.25", "0.25"), "R0")), "nrnur"), menu_multi(1, 1), &mut v);
            v.push(with_legacy_seed(scen("B11/P1/F1/R0", Cfg::new(0, 2, ("0.25", "0.25"), "R0"), menu_p1(1, 1), vec![])));
            {
                // executor lists installed in either order: every listed executor can expire every open order
                let cfg = Cfg::new(0, 2, ("0.25", "0.25"), "R0");
                let r = cfg.roles.clone();
                let mut menu = Menu { prices: vec!["2"], sizes: vec![2], match_sizes: vec![1, 2], ..menu_p1(1, 1) };
                menu.modifies = vec![
                    ("executors := [exec2, exec]", Modify { executors: Some(vec![r.get("exec2").into(), r.get("exec").into()]), ..Default::default() }),
                    ("executors := [exec, stranger, exec2]", Modify { executors: Some(vec![r.get("exec").into(), r.get("stranger").into(), r.get("exec2").into()]), ..Default::default() }),
                ];
                v.push(scen("B11/P1/F1/R0/executor-lists", cfg, menu, vec![]));
            }
            v.extend(upgrade_family(&no_probes, true));
            v.extend(marker_family(&no_probes));
            if !th {
                v.extend(pinned_sweep());
            }
            if th {
                v.extend(value_sweep(tier));
                mk("B22/P1/F1/R0", Cfg::new(0, 2, ("0.25", "0.25"), "R0"), menu_p1(2, 2), &mut v);
                mk("B12/P2/F1/R0", Cfg::new(1, 10, ("0.25", "0.25"), "R0"), menu_p2s(1, 2), &mut v);
                mk("B21/P2/F0/R0", Cfg::new(1, 10, ("", ""), "R0"), menu_p2s(2, 1), &mut v);
                mk("B12/P1big/F2/R4", Cfg::new(0, 2, ("0.1", "0.1"), "R4"), menu_p1_big(1, 2), &mut v);
                mk("B12/P1/third/R0", Cfg::new(0, 2, ("0.333", "0.333"), "R0"), Menu { sizes: vec![2, 4, 6], match_sizes: vec![1, 2, 3, 4, 5, 6], ..menu_p1(1, 2) }, &mut v);
                mk("B21/P1/F1/R0/rur", with_markers(Cfg::new(0, 2, ("0.25", "0.25"), "R0"), "rur"), menu_p1(2, 1), &mut v);
                v.push(with_legacy_seed(scen("B11/P2/F1/R0", Cfg::new(1, 10, ("0.25", "0.25"), "R0"), menu_p2(1, 1), vec![])));
                v.push(with_legacy_seed(scen("B21/P1/F1/R0", Cfg::new(0, 2, ("0.25", "0.25"), "R0"), menu_p1(2, 1), vec![])));
            }
            Plan { scenarios: v, hooks: vec![HookKind::Exit] }
        }
        "C07" => {
            let mut v = vec![];
            let k = if th { 2 } else { 1 };
            let mk = |name: &str, cfg: Cfg, menu: Menu, v: &mut Vec<Scenario>| {
                let p = probes::creates(&cfg, &menu, k);
                v.push(scen(name, cfg, menu, p));
            };
            let small = |m: Menu| Menu { match_sizes: vec![m.sizes[0]], reject_sizes: vec![], ..m };
            mk("B11/P1/F1", Cfg::new(0, 2, ("0.25", "0.25"), "R0"), small(menu_p1(1, 1)), &mut v);
            mk("B12/P1/F2", Cfg::new(0, 2, ("0.1", "0.1"), "R0"), small(menu_p1(1, 2)), &mut v);
            mk("B11/P0/F0", Cfg::new(0, 1, ("", ""), "R0"), small(menu_p0(1, 1, vec!["1", "3"])), &mut v);
            mk("B11/P2/F1", Cfg::new(1, 10, ("0.25", "0.25"), "R0"), small(menu_p2(1, 1)), &mut v);
            mk("B11/P3/F2", Cfg::new(2, 100, ("0.1", "0.1"), "R0"), small(menu_p3(1, 1)), &mut v);
            mk("B11/P2/lot-above-tick", Cfg::new(1, 20, ("0.25", "0.25"), "R0"), small(Menu { prices: vec!["0.5", "1.5"], sizes: vec![20, 40], ..menu_p2(1, 1) }), &mut v);
            mk("B11/P1/F1/rnn", with_markers(Cfg::new(0, 2, ("0.25", "0.25"), "R0"), "rnn"), small(menu_p1(1, 1)), &mut v);
            mk("B11/P1/F1/unr", with_markers(Cfg::new(0, 2, ("0.25", "0.25"), "R0"), "unr"), small(menu_p1(1, 1)), &mut v);
            mk("B11/P1/F1/rrr", with_markers(Cfg::new(0, 2, ("0.25", "0.25"), "R0"), "rrr"), small(menu_p1(1, 1)), &mut v);
            // rates with nineteen and more decimal places on amounts where those places decide the fee
            mk("B11/P0/long-rates", Cfg::new(0, 1, ("0.0000000000000000025", "0.0000000000000000015"), "R0"), small(Menu { sizes: vec![1_000_000_000_000_000_000, 3_000_000_000_000_000_000], ..menu_p0(1, 1, vec!["1", "2"]) }), &mut v);
            // amounts next to the capacity of a 96-bit decimal (2^96 - 1 = 79228162514264337593543950335)
            mk("B11/P0/F2/near-2^96", Cfg::new(0, 1, ("0.01", "0.01"), "R0"), small(Menu { sizes: vec![70_000_000_000_000_000_000_000_000_000, 39_614_081_257_132_168_796_771_975_167], ..menu_p0(1, 1, vec!["1", "2"]) }), &mut v);
            mk("B11/P1/F1/aua", with_markers(Cfg::new(0, 2, ("0.25", "0.25"), "R0"), "aua"), small(menu_p1(1, 1)), &mut v);
            mk("B11/base-also-convertible", overlap(Cfg::new(0, 2, ("0.25", "0.25"), "R0")), small(menu_p1(1, 1)), &mut v);
            mk("B11/P1/F1/attrs1", with_attrs(Cfg::new(0, 2, ("0.25", "0.25"), "R0"), &["kyc"], &["kyc"]), small(menu_p1(1, 1)), &mut v);
            mk("B11/multi-denom", multi(Cfg::new(0, 2, ("0.25", "0.25"), "R0")), small(menu_multi(1, 1)), &mut v);
            mk("B11/P1/rates-0.250-0.10", Cfg::new(0, 2, ("0.250", "0.10"), "R0"), small(menu_p1(1, 1)), &mut v);
            mk("B11/P0/rates-0.0100-0.010", Cfg::new(0, 1, ("0.0100", "0.010"), "R0"), small(Menu { sizes: vec![500, 1000], ..menu_p0(1, 1, vec!["2", "3"]) }), &mut v);
            v.extend(high_precision(&|c, m| probes::creates(c, m, k), if th { &[3, 6, 9, 12, 15, 18] } else { &[6, 18] }));
            mk("B11/P1/F1/attrs-ask-only", with_attrs(Cfg::new(0, 2, ("0.25", "0.25"), "R0"), &["kyc"], &[]), small(menu_p1(1, 1)), &mut v);
            mk("B11/P1/F1/attrs-bid-only", with_attrs(Cfg::new(0, 2, ("0.25", "0.25"), "R0"), &[], &["kyc"]), small(menu_p1(1, 1)), &mut v);
            mk("B11/P1/F1/attrs-listed-twice", with_attrs(Cfg::new(0, 2, ("0.25", "0.25"), "R0"), &["kyc", "kyc"], &["acc", "acc"]), small(menu_p1(1, 1)), &mut v);
            mk("B11/P1/F1/attrs2", with_attrs(Cfg::new(0, 2, ("0.25", "0.25"), "R0"), &["kyc", "acc"], &["acc", "kyc"]), small(menu_p1(1, 1)), &mut v);
            if th {
                mk("B12/P1/F1", Cfg::new(0, 2, ("0.25", "0.25"), "R0"), small(menu_p1(1, 2)), &mut v);
                mk("B11/P0/rate1", Cfg::new(0, 1, ("1", "1"), "R0"), small(menu_p0(1, 1, vec!["1", "3"])), &mut v);
                mk("B11/P0/rate.001", Cfg::new(0, 1, ("0.001", "0.001"), "R0"), small(menu_p0(1, 1, vec!["1", "7"])), &mut v);
                mk("B11/P2/F2/rur", with_markers(Cfg::new(1, 10, ("0.1", "0.1"), "R0"), "rur"), small(menu_p2(1, 1)), &mut v);
            }
            Plan { scenarios: v, hooks: vec![] }
        }
        "C08" => {
            let mut v = vec![];
            let mk = |name: &str, cfg: Cfg, mut menu: Menu, v: &mut Vec<Scenario>| {
                menu.two_approvers = true;
                let p = probes::approvals(&cfg, &menu);
                v.push(scen(name, cfg, menu, p));
            };
            mk("B21/P1/F1/R0", Cfg::new(0, 2, ("0.25", "0.25"), "R0"), menu_p1(2, 1), &mut v);
            mk("B11/P1/F1/R1/run", with_markers(Cfg::new(0, 2, ("0.25", "0.25"), "R1"), "run"), menu_p1(1, 1), &mut v);
            mk("B11/P1/F1/R0/urn", with_markers(Cfg::new(0, 2, ("0.25", "0.25"), "R0"), "urn"), menu_p1(1, 1), &mut v);
            mk("B11/P0/F3/R0", Cfg::new(0, 1, ("0.5", "0.5"), "R0"), menu_p0(1, 1, vec!["1", "2"]), &mut v);
            {
                let mut cfg = Cfg::new(0, 2, ("0.25", "0.25"), "R0");
                cfg.approvers = vec![];
                mk("B11/P1/F1/R0/no-approvers", cfg, menu_p1(1, 1), &mut v);
                mk("B11/base-also-convertible", overlap(Cfg::new(0, 2, ("0.25", "0.25"), "R0")), Menu { prices: vec!["2"], ..menu_p1(1, 1) }, &mut v);
                // three lots: partial rejects leaving one third / two thirds
                mk("B11/P1/three-lots", Cfg::new(0, 2, ("0.25", "0.25"), "R0"), Menu { prices: vec!["2"], sizes: vec![6], match_sizes: vec![2, 6], reject_sizes: vec![2, 4], ..menu_p1(1, 1) }, &mut v);
                mk("B11/P1/F1/R0/mid-history-migrations", Cfg::new(0, 2, ("0.25", "0.25"), "R0"), Menu { migrates: mid_history_migrations(), ..menu_p1(1, 1) }, &mut v);
            }
            if th {
                mk("B21/P1/F1/R1", Cfg::new(0, 2, ("0.25", "0.25"), "R1"), menu_p1(2, 1), &mut v);
                mk("B21/P1big/F1/R0", Cfg::new(0, 2, ("0.25", "0.25"), "R0"), menu_p1_big(2, 1), &mut v);
                mk("B21/P2-two-prices/F1/R0/rrr", with_markers(Cfg::new(1, 10, ("0.25", "0.25"), "R0"), "rrr"), Menu { prices: vec!["1", "1.5"], match_sizes: vec![5, 10, 20], ..menu_p2(2, 1) }, &mut v);
                mk("B11/P2/F1/R0/rrr", with_markers(Cfg::new(1, 10, ("0.25", "0.25"), "R0"), "rrr"), menu_p2(1, 1), &mut v);
                mk("B12/P0/F3/R4", Cfg::new(0, 1, ("0.5", "0.5"), "R4"), menu_p0(1, 2, vec!["1", "2"]), &mut v);
            }
            Plan { scenarios: v, hooks: vec![HookKind::Exit] }
        }
        "C09" => {
            let mut v = vec![];
            let mk = |name: &str, cfg: Cfg, menu: Menu, v: &mut Vec<Scenario>| {
                let p = probes::fee_creates(&cfg, &menu);
                v.push(scen(name, cfg, menu, p));
            };
            let plain = |m: Menu| Menu { ask_bases: vec!["base"], ..m };
            mk("B12/P1/F1", Cfg::new(0, 2, ("0.25", "0.25"), "R0"), plain(menu_p1(1, 2)), &mut v);
            mk("B12/P1/F2", Cfg::new(0, 2, ("0.1", "0.1"), "R0"), plain(Menu { prices: vec!["2", "3", "7"], ..menu_p1(1, 2) }), &mut v);
            mk("B11/P0/F3", Cfg::new(0, 1, ("0.5", "0.5"), "R0"), plain(menu_p0(1, 1, vec!["1", "2", "3"])), &mut v);
            mk("B11/P0/rate.2", Cfg::new(0, 1, ("0.2", "0.2"), "R0"), plain(Menu { sizes: vec![3, 5], match_sizes: vec![1, 2, 3, 4, 5], ..menu_p0(1, 1, vec!["7", "9"]) }), &mut v);
            mk("B11/P0/rate.001", Cfg::new(0, 1, ("0.001", "0.001"), "R0"), plain(menu_p0(1, 1, vec!["1", "7"])), &mut v);
            mk("B11/P0/rate1", Cfg::new(0, 1, ("0.9", "1"), "R0"), plain(menu_p0(1, 1, vec!["1", "2"])), &mut v);
            mk("B11/P2/F1", Cfg::new(1, 10, ("0.25", "0.25"), "R0"), plain(menu_p2(1, 1)), &mut v);
            mk("B11/p14/large-amounts", Cfg::new(14, 300_000_000_000_000, ("0.25", "0.25"), "R0"), plain(menu_large(1, 1)), &mut v);
            // the seller collects the ask fee (and the buyer the bid fee); the approver collects both
            mk("B11/P1/F1/R2", Cfg::new(0, 2, ("0.25", "0.25"), "R2"), plain(menu_p1(1, 1)), &mut v);
            mk("B11/P1/F1/R5", Cfg::new(0, 2, ("0.25", "0.25"), "R5"), Menu { prices: vec!["2"], ..menu_p1(1, 1) }, &mut v);
            // two quote denominations: the fee is escrowed in the bid's own quote denomination, not in the other one
            mk("B11/multi-denom", multi(Cfg::new(0, 2, ("0.25", "0.25"), "R0")), plain(menu_multi(1, 1)), &mut v);
            v.extend(upgrade_family(&|c, m| probes::fee_creates(c, m), false));
            v.extend(value_sweep(tier));
            if th {
                mk("B12/P1big/F1", Cfg::new(0, 2, ("0.25", "0.25"), "R0"), plain(menu_p1_big(1, 2)), &mut v);
                mk("B12/P1/third", Cfg::new(0, 2, ("0.333", "0.333"), "R0"), plain(Menu { sizes: vec![2, 4, 6], match_sizes: vec![1, 2, 3, 4, 5, 6], ..menu_p1(1, 2) }), &mut v);
                mk("B12/P0/rate.2", Cfg::new(0, 1, ("0.2", "0.2"), "R0"), plain(Menu { sizes: vec![3, 5], match_sizes: vec![1, 2, 3, 4, 5], ..menu_p0(1, 2, vec!["7", "9"]) }), &mut v);
                mk("B12/P2/F2", Cfg::new(1, 10, ("0.1", "0.1"), "R0"), plain(menu_p2s(1, 2)), &mut v);
                mk("B21/P0/rate.03", Cfg::new(0, 5, ("0.03", "0.03"), "R0"), plain(Menu { sizes: vec![10, 50], match_sizes: vec![5, 15, 45], reject_sizes: vec![5, 15], prices: vec!["1", "2"], ..menu_p0(2, 1, vec![]) }), &mut v);
                mk("B11/P3/F1", Cfg::new(2, 100, ("0.25", "0.25"), "R0"), plain(menu_p3(1, 1)), &mut v);
            }
            Plan { scenarios: v, hooks: vec![] }
        }
        "C10" => {
            let mut v = vec![];
            let kinds = ['r', 'u', 'n'];
            for a in kinds {
                for b in kinds {
                    for c in kinds {
                        let spec: String = [a, b, c].iter().collect();
                        let cfg = with_markers(Cfg::new(0, 1, ("0.25", "0.25"), "R0"), &spec);
                        let mut menu = menu_p0(1, 1, vec!["2", "4"]);
                        menu.sizes = vec![1, 2];
                        menu.match_sizes = vec![1, 2];
                        // deviant creates: if one is wrongly admitted, exploration continues from it
                        let mut p = if c == 'r' || a == 'r' { probes::creates(&cfg, &menu, 1) } else { vec![] };
                        p.extend(probes::reversals(&cfg, &menu));
                        v.push(scen(&format!("B11/P0/F1/{spec}"), cfg, menu, p));
                    }
                }
            }
            // the base denomination is also a quote denomination; base and convertible denomination differ in kind
            for spec in ["ru", "ur", "rn"] {
                let cfg = with_markers(quote_is_base(Cfg::new(0, 2, ("0.25", "0.25"), "R0")), spec);
                v.push(scen(&format!("B11/quote-is-base/{spec}"), cfg, Menu { prices: vec!["2"], ..menu_p1(1, 1) }, vec![]));
            }
            // restricted markers whose marker account lists required attributes are restricted markers all the same
            for spec in ["ann", "nan", "nna", "aua", "aaa"] {
                let cfg = with_markers(Cfg::new(0, 1, ("0.25", "0.25"), "R0"), spec);
                let mut menu = menu_p0(1, 1, vec!["2", "4"]);
                menu.sizes = vec![1, 2];
                menu.match_sizes = vec![1, 2];
                let mut p = probes::creates(&cfg, &menu, 1);
                p.extend(probes::reversals(&cfg, &menu));
                v.push(scen(&format!("B11/P0/F1/{spec}"), cfg, menu, p));
            }
            for spec in ["nrnur", "rnrnu", "urunr", "rurrn"] {
                let cfg = with_markers(multi(Cfg::new(0, 2, ("0.25", "0.25"), "R0")), spec);
                v.push(scen(&format!("B11/multi-denom/{spec}"), cfg, menu_multi(1, 1), vec![]));
            }
            v.extend(upgrade_family(&no_probes, true));
            for spec in ["nnr", "rnn", "nrn"] {
                let cfg = with_markers(Cfg::new(0, 1, ("0.1", "0.1"), "R0"), spec);
                let menu = Menu { migrates: mid_history_migrations(), ..menu_p0(1, 1, vec!["2", "5"]) };
                v.push(scen(&format!("B11/P0/F2/R0/{spec}/mid-history-migrations"), cfg, menu, vec![]));
            }
            // fee consumes the whole proceeds, under restricted / unrestricted quote
            for spec in ["nnn", "nnr", "rrr", "run"] {
                let cfg = with_markers(Cfg::new(0, 1, ("0.5", "0.5"), "R0"), spec);
                v.push(scen(&format!("B11/P0/F3/{spec}"), cfg, menu_p0(1, 1, vec!["1", "2"]), vec![]));
            }
            for spec in if th { vec!["rrr", "rru", "rur", "ruu", "urr", "uru", "uur", "uuu"] } else { vec!["rur", "urr"] } {
                let cfg = with_markers(Cfg::new(0, 2, ("0.25", "0.25"), "R0"), spec);
                v.push(scen(&format!("B21/P1/F1/{spec}"), cfg, menu_p1(2, 1), vec![]));
            }
            Plan { scenarios: v, hooks: vec![] }
        }
        "C12" => {
            let mut v = vec![];
            let k = if th { 3 } else { 2 };
            // (the third book holds a convertible ask: an ask awaiting approval is an open order like any other)
            for (name, fee) in [("F1", ("0.25", "0.25")), ("F0", ("", "")), ("F1/conv", ("0.25", "0.25"))] {
                let mut cfg = Cfg::new(0, 2, fee, "R0");
                cfg.executors = vec![cfg.roles.get("exec").into(), cfg.roles.get("exec2").into()];
                let mut menu = menu_p1(1, 1);
                menu.prices = vec!["2"];
                menu.sizes = vec![2];
                menu.match_sizes = vec![2];
                menu.reject_sizes = vec![];
                menu.ask_bases = if name.ends_with("conv") { vec!["conv"] } else { vec!["base"] };
                // a few accepted changes are part of L so that the configuration itself varies
                let r = cfg.roles.clone();
                menu.modifies = vec![
                    ("ask fee respelled", Modify { ask_fee_rate: Some("0.250".into()), ask_fee_account: Some(r.get("askfee").into()), ..Default::default() }),
                    ("bid fee other rate", Modify { bid_fee_rate: Some("0.5".into()), bid_fee_account: Some(r.get("bidfee").into()), ..Default::default() }),
                    ("ask fee cleared", Modify { ask_fee_rate: Some("".into()), ask_fee_account: Some("".into()), ..Default::default() }),
                    ("executors := [exec2]", Modify { executors: Some(vec![r.get("exec2").into()]), ..Default::default() }),
                    ("executors := [exec, exec2]", Modify { executors: Some(vec![r.get("exec").into(), r.get("exec2").into()]), ..Default::default() }),
                    ("approvers := [approver]", Modify { approvers: Some(vec![r.get("approver").into()]), ..Default::default() }),
                    ("attrs := kyc", Modify { ask_required_attributes: Some(vec!["kyc".into()]), bid_required_attributes: Some(vec!["kyc".into()]), ..Default::default() }),
                ];
                let cfg = with_attrs(cfg, &[], &[]);
                let senders = [r.get("exec"), r.get("exec2"), r.get("stranger")];
                let p = probes::modifies(&cfg, k, &senders);
                v.push(scen(&format!("B11/P1/{name}/modify<={k}"), cfg, menu, p));
            }
            Plan { scenarios: v, hooks: vec![] }
        }
        "C16" => {
            let mut v = vec![];
            v.push(scen("B21/P1/F1/R0", Cfg::new(0, 2, ("0.25", "0.25"), "R0"), menu_p1(2, 1), vec![]));
            v.push(scen("B12/P1/F1/R0", Cfg::new(0, 2, ("0.25", "0.25"), "R0"), menu_p1(1, 2), vec![]));
            v.push(with_legacy_seed(scen("B11/P1/F1/R0", Cfg::new(0, 2, ("0.25", "0.25"), "R0"), menu_p1(1, 1), vec![])));
            v.extend(upgrade_family(&no_probes, false));
            // fee rates stored in a spelling that is not the shortest one
            v.push(scen("B11/P1/rates-0.250-0.2500", Cfg::new(0, 2, ("0.250", "0.2500"), "R0"), Menu { prices: vec!["2"], ..menu_p1(1, 1) }, vec![]));
            if th {
                v.push(scen("B22/P1/F1/R0", Cfg::new(0, 2, ("0.25", "0.25"), "R0"), menu_p1(2, 2), vec![]));
                v.push(with_legacy_seed(scen("B11/P2/F1/R0", Cfg::new(1, 10, ("0.25", "0.25"), "R0"), menu_p2(1, 1), vec![])));
                v.push(scen("B21/P1/F1/R4/rur", with_markers(Cfg::new(0, 2, ("0.25", "0.25"), "R4"), "rur"), menu_p1(2, 1), vec![]));
            }
            Plan { scenarios: v, hooks: vec![HookKind::Query] }
        }
        _ => Plan { scenarios: vec![], hooks: vec![] },
    }
}
