//! Per-state probes: exit liveness (C06) and queries (C16).

use crate::chain::{do_query, parse_query, step, Outcome, QueryOutcome, CONTRACT};
use crate::engine::StateHook;
use crate::oracles::{net_of, on_trans, Net, Sink, StateCtx, TransCtx};
use crate::refmodel::*;
use crate::scenario::{unhyphen, Act, Req, Scenario, ID_UNUSED};
use serde_json::{json, Value};
use std::collections::BTreeMap;

fn add(m: &mut Net, acct: &str, denom: &str, amt: i128) {
    if amt != 0 {
        *m.entry((acct.to_string(), denom.to_string())).or_insert(0) += amt;
    }
}
fn clean(mut m: Net) -> Net {
    m.retain(|_, v| *v != 0);
    m
}

fn full_return_ask(a: &RefAsk) -> Net {
    let mut e: Net = BTreeMap::new();
    add(&mut e, &a.owner, &a.base, a.size as i128);
    add(&mut e, CONTRACT, &a.base, -(a.size as i128));
    if let AskClass::Ready { approver, denom, .. } = &a.class {
        add(&mut e, approver, denom, a.size as i128);
        add(&mut e, CONTRACT, denom, -(a.size as i128));
    }
    clean(e)
}

fn full_return_bid(b: &RefBid) -> Option<Net> {
    let mut e: Net = BTreeMap::new();
    let rq = b.rem_quote()? as i128;
    let rf = b.rem_fee()? as i128;
    let fd = b.fee.as_ref().map_or(b.quote_denom.clone(), |f| f.0.clone());
    add(&mut e, &b.owner, &b.quote_denom, rq);
    add(&mut e, CONTRACT, &b.quote_denom, -rq);
    add(&mut e, &b.owner, &fd, rf);
    add(&mut e, CONTRACT, &fd, -rf);
    Some(clean(e))
}

/// C06: in every state, every open order can be cancelled by its owner and expired by an executor.
pub struct ExitHook;

impl ExitHook {
    fn attempt(&self, scen: &Scenario, st: &StateCtx, act: Act, expected: Option<Net>, is_ask: bool, key: &str, what: &str, sink: &mut Sink) {
        let out = crate::scenario::step_act(st.store, &scen.cfg.chain, &act);
        sink.extra_execs += 1;
        // the exit is a real transition: judge it with every transition oracle as well
        {
            let tc = TransCtx::new(st, &act, &out);
            let before = sink.viols.len();
            on_trans(&tc, sink);
            for _ in before..sink.viols.len() {
                sink.pending_last.push(vec![act.to_replay()]);
            }
        }
        let legacy = if is_canonical_uuid(key) { "canonical-id" } else { "legacy-id" };
        sink.cs(format!("C06/{what}/{legacy}"));
        match &out {
            Outcome::Accepted(a) => {
                if !a.deliverable() {
                    sink.vl("C06", format!("C06/{what}/undeliverable"), format!("flows {:?} bad {:?}", a.flows, a.bad_msgs), vec![act.to_replay()]);
                    return;
                }
                let post = decode_book(&a.store);
                let gone = if is_ask { !post.asks.contains_key(key) } else { !post.bids.contains_key(key) };
                if !gone {
                    sink.vl("C06", format!("C06/{what}/order-still-on-book"), format!("{key}"), vec![act.to_replay()]);
                }
                if let Some(e) = expected {
                    let got = net_of(a);
                    if got != e {
                        sink.vl("C06", format!("C06/{what}/not-made-whole"), format!("expected {e:?}, observed {got:?}"), vec![act.to_replay()]);
                    }
                }
            }
            Outcome::Refused(e) => {
                let cls = e.split(':').next().unwrap_or("").trim().replace(' ', "-");
                sink.vl("C06", format!("C06/{what}/refused/{cls}"), format!("{e}; state {:?} {:?}", st.book.asks.get(key), st.book.bids.get(key)), vec![act.to_replay()]);
            }
            Outcome::Aborted => {
                sink.vl("C06", format!("C06/{what}/aborted"), format!("panic; state {:?} {:?}", st.book.asks.get(key), st.book.bids.get(key)), vec![act.to_replay()]);
            }
        }
    }
}

impl StateHook for ExitHook {
    fn on_state(&self, scen: &Scenario, st: &StateCtx, sink: &mut Sink) {
        let execs: Vec<String> = st.book.info.as_ref().map(|i| i.executors.clone()).unwrap_or_default();
        for (k, a) in &st.book.asks {
            if a.size == 0 {
                continue;
            }
            if a.size % scen.cfg.increment != 0 {
                sink.c("C06/ask-remainder-not-lot-multiple");
            }
            self.attempt(scen, st, Act::new(&a.owner, vec![], Req::CancelAsk { id: k.clone() }), Some(full_return_ask(a)), true, k, "cancel_ask", sink);
            for e in &execs {
                self.attempt(scen, st, Act::new(e, vec![], Req::ExpireAsk { id: k.clone() }), Some(full_return_ask(a)), true, k, "expire_ask", sink);
            }
            if a.class == AskClass::Pending {
                // C08: a pending ask can be rejected (and cancelled / expired, above)
                for e in execs.iter().take(1) {
                    let act = Act::new(e, vec![], Req::RejectAsk { id: k.clone(), size: None });
                    let out = crate::scenario::step_act(st.store, &scen.cfg.chain, &act);
                    sink.extra_execs += 1;
                    sink.c("C08/pending-ask-reject-attempts");
                    if !out.is_accepted() {
                        sink.vl("C08", "C08/pending-ask-cannot-be-rejected".into(), out.short(), vec![act.to_replay()]);
                    }
                }
            }
        }
        for (k, b) in &st.book.bids {
            if b.rem_base().unwrap_or(0) == 0 {
                continue;
            }
            if b.rem_base().unwrap_or(0) % scen.cfg.increment != 0 {
                sink.c("C06/bid-remainder-not-lot-multiple");
            }
            self.attempt(scen, st, Act::new(&b.owner, vec![], Req::CancelBid { id: k.clone() }), full_return_bid(b), false, k, "cancel_bid", sink);
            for e in &execs {
                self.attempt(scen, st, Act::new(e, vec![], Req::ExpireBid { id: k.clone() }), full_return_bid(b), false, k, "expire_bid", sink);
            }
        }
    }
}

/// C16: queries are read-only and faithful.
pub struct QueryHook;

fn q(kind: &str, id: Option<&str>) -> Value {
    match id {
        Some(i) => json!({ kind: {"id": i} }),
        None => json!({ kind: {} }),
    }
}

impl StateHook for QueryHook {
    fn on_state(&self, scen: &Scenario, st: &StateCtx, sink: &mut Sink) {
        let mut ids: Vec<String> = vec![];
        for k in st.book.asks.keys().chain(st.book.bids.keys()) {
            ids.push(k.clone());
        }
        for id in crate::scenario::ASK_IDS.iter().chain(crate::scenario::BID_IDS.iter()) {
            ids.push(id.to_string());
            ids.push(unhyphen(id));
            ids.push(id.to_uppercase());
        }
        ids.push(ID_UNUSED.into());
        ids.push("nope".into());
        ids.push("".into());
        ids.sort();
        ids.dedup();
        let run = |v: &Value, sink: &mut Sink| -> Option<QueryOutcome> {
            let js = v.to_string();
            let msg = match parse_query(&js) {
                Ok(m) => m,
                Err(_) => return None,
            };
            let (after, out) = do_query(st.store, &scen.cfg.chain, &msg);
            sink.extra_execs += 1;
            if &after != st.store {
                sink.vl("C16", "C16/query-modified-state".into(), js.clone(), vec![json!({"op": "query", "msg": v})]);
            }
            Some(out)
        };
        for id in &ids {
            for (side, kind) in [("ask", "get_ask"), ("bid", "get_bid")] {
                let v = q(kind, Some(id));
                let out = match run(&v, sink) {
                    Some(o) => o,
                    None => continue,
                };
                let raw = if side == "ask" { st.store.0.get(&ask_key(id)) } else { st.store.0.get(&bid_key(id)) };
                let last = vec![json!({"op": "query", "msg": v})];
                match (raw, out) {
                    (Some(raw), QueryOutcome::Ok(ans)) => {
                        sink.cs(format!("C16/{kind}/on-book"));
                        let a: Option<Value> = serde_json::from_slice(&ans).ok();
                        let r: Option<Value> = serde_json::from_slice(raw).ok();
                        if a.is_none() || a != r {
                            sink.vl("C16", format!("C16/{kind}/answer-differs-from-stored-order"), format!("answer {} stored {}", lossy(&ans), lossy(raw)), last.clone());
                        }
                        // exactly the order under the given id
                        let ans_id = serde_json::from_slice::<Value>(&ans).ok().and_then(|v| v.get("id").and_then(|x| x.as_str().map(|s| s.to_string())));
                        if ans_id.as_deref() != Some(id.as_str()) {
                            sink.vl("C16", format!("C16/{kind}/returned-order-carries-another-id"), format!("asked for {id:?}, answer {}", lossy(&ans)), last.clone());
                        }
                        // a completely filled / cancelled / expired / rejected order is not on the book
                        let closed = if side == "ask" {
                            decode_ask(id, &ans).map(|x| x.size == 0).unwrap_or(false)
                        } else {
                            decode_bid(id, &ans).map(|x| x.rem_base() == Some(0)).unwrap_or(false)
                        };
                        if closed {
                            sink.vl("C16", format!("C16/{kind}/returns-an-order-with-nothing-remaining"), format!("answer {}", lossy(&ans)), last.clone());
                        }
                        // what the query reports is what a cancel returns
                        let (owner, expected): (Option<String>, Option<Net>) = if side == "ask" {
                            match decode_ask(id, &ans) {
                                Ok(x) => {
                                    let mut e: Net = BTreeMap::new();
                                    add(&mut e, &x.owner, &x.base, x.size as i128);
                                    add(&mut e, CONTRACT, &x.base, -(x.size as i128));
                                    if let AskClass::Ready { approver, denom, amount } = &x.class {
                                        add(&mut e, approver, denom, *amount as i128);
                                        add(&mut e, CONTRACT, denom, -(*amount as i128));
                                    }
                                    (Some(x.owner.clone()), Some(clean(e)))
                                }
                                Err(_) => (None, None),
                            }
                        } else {
                            match decode_bid(id, &ans) {
                                Ok(x) => (Some(x.owner.clone()), full_return_bid(&x)),
                                Err(_) => (None, None),
                            }
                        };
                        if let (Some(owner), Some(e)) = (owner, expected) {
                            let act = if side == "ask" {
                                Act::new(&owner, vec![], Req::CancelAsk { id: id.clone() })
                            } else {
                                Act::new(&owner, vec![], Req::CancelBid { id: id.clone() })
                            };
                            let out = crate::scenario::step_act(st.store, &scen.cfg.chain, &act);
                            sink.extra_execs += 1;
                            match out {
                                Outcome::Accepted(a) => {
                                    sink.cs(format!("C16/{kind}/compared-with-cancel"));
                                    if net_of(&a) != e {
                                        sink.vl(
                                            "C16",
                                            format!("C16/{kind}/reported-amounts-differ-from-cancel-payout"),
                                            format!("query reports {e:?}, cancel pays {:?}", net_of(&a)),
                                            vec![json!({"op": "query", "msg": v}), act.to_replay()],
                                        );
                                    }
                                }
                                _ => sink.c("no-verdict/query/cancel-refused"),
                            }
                        }
                    }
                    (Some(raw), other) => {
                        let why = match other {
                            QueryOutcome::Err(e) => e,
                            QueryOutcome::Aborted => "panic".into(),
                            _ => unreachable!(),
                        };
                        // ids that the query's own validation rejects cannot name a stored order
                        sink.vl("C16", format!("C16/{kind}/order-on-book-not-returned"), format!("{why}; stored {}", lossy(raw)), last.clone());
                    }
                    (None, QueryOutcome::Ok(ans)) => {
                        sink.vl("C16", format!("C16/{kind}/answer-for-id-not-on-book"), format!("id {id:?} -> {}", lossy(&ans)), last.clone());
                    }
                    (None, _) => {
                        sink.cs(format!("C16/{kind}/not-on-book-fails"));
                    }
                }
            }
        }
        // the same state as an earlier release left it: the version query reports the stored record, not the running build
        for (def, ver) in [("ats_smart_contract", "0.18.2"), ("ats-smart-contract", "0.16.1")] {
            let v = q("get_version_info", None);
            if let Ok(msg) = parse_query(&v.to_string()) {
                let mut older = st.store.clone();
                let rec = json!({"definition": def, "version": ver});
                older.0.insert(KEY_VERSION.to_vec(), rec.to_string().into_bytes());
                let (after, out) = do_query(&older, &scen.cfg.chain, &msg);
                sink.extra_execs += 1;
                sink.c("C16/get_version_info/compared-under-an-older-stored-version");
                let last = vec![json!({"op": "query", "msg": v, "with_stored_version_record": rec})];
                if after != older {
                    sink.vl("C16", "C16/query-modified-state".into(), v.to_string(), last.clone());
                }
                let ok = match &out {
                    QueryOutcome::Ok(ans) => serde_json::from_slice::<Value>(ans).ok() == Some(rec.clone()),
                    _ => false,
                };
                if !ok {
                    sink.vl("C16", "C16/get_version_info/answer-differs-from-stored".into(), format!("stored {rec}, answer {out:?}"), last);
                }
            }
        }
        for (kind, key) in [("get_contract_info", KEY_INFO), ("get_version_info", KEY_VERSION)] {
            let v = q(kind, None);
            if let Some(out) = run(&v, sink) {
                let raw = st.store.0.get(key);
                let last = vec![json!({"op": "query", "msg": v})];
                match (raw, out) {
                    (Some(raw), QueryOutcome::Ok(ans)) => {
                        sink.cs(format!("C16/{kind}/compared"));
                        let a: Option<Value> = serde_json::from_slice(&ans).ok();
                        let r: Option<Value> = serde_json::from_slice(raw).ok();
                        if a.is_none() || a != r {
                            sink.vl("C16", format!("C16/{kind}/answer-differs-from-stored"), format!("answer {} stored {}", lossy(&ans), lossy(raw)), last);
                        }
                    }
                    (Some(_), _) => sink.vl("C16", format!("C16/{kind}/stored-record-not-returned"), String::new(), last),
                    (None, QueryOutcome::Ok(_)) => sink.vl("C16", format!("C16/{kind}/answer-without-record"), String::new(), last),
                    (None, _) => {}
                }
            }
        }
    }
}
