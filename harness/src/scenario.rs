//! Scenarios: configuration, environment tables, request alphabets (DESIGN §3.1, §5).

use crate::chain::{parse_execute, Chain, Marker};
use ats_smart_contract::msg::ExecuteMsg;
use cosmwasm_std::Coin;
use serde_json::{json, Value};
use std::collections::BTreeMap;
use std::sync::Arc;

pub const ID_A: &str = "ab5f5a62-f6fc-46d1-aa84-51ccc51ec367"; // ask slot 0 AND bid slot 0
pub const ID_A2: &str = "00000000-0000-0000-0000-000000000000"; // ask slot 1: the nil UUID
pub const ID_B2: &str = "ffffffff-ffff-ffff-ffff-ffffffffffff"; // bid slot 1: the all-ones UUID
/// canonical spelling of the id whose UPPER-CASE un-hyphenated spelling keys the legacy ask
pub const ID_LEGACY_ASK: &str = "abcdef12-3456-4789-8abc-def012345678";
pub const ID_UNUSED: &str = "99999999-9999-4999-8999-999999999999";
pub const ID_A3: &str = "33333333-3333-4333-8333-333333333333"; // ask slot 2 (same owner as slot 0)
pub const ID_B3: &str = "44444444-4444-4444-8444-444444444444"; // bid slot 2 (same owner as slot 0)
pub const ASK_IDS: [&str; 3] = [ID_A, ID_A2, ID_A3];
pub const BID_IDS: [&str; 3] = [ID_A, ID_B2, ID_B3];

pub fn unhyphen(id: &str) -> String {
    id.replace('-', "")
}

/// storage key of the legacy ask: un-hyphenated and upper-case (earlier versions took any spelling the uuid parser accepts)
pub fn legacy_ask_key() -> String {
    unhyphen(ID_LEGACY_ASK).to_uppercase()
}

/// A request, in the harness's own terms. The JSON delivered to the contract is derived from it.
#[derive(Clone, Debug, PartialEq, Eq)]
pub enum Req {
    CreateAsk { id: String, base: String, quote: String, price: String, size: u128 },
    CreateBid {
        id: String,
        base: String,
        fee: Option<(String, u128)>,
        price: String,
        quote: String,
        quote_size: u128,
        size: u128,
    },
    ApproveAsk { id: String, base: String, size: u128 },
    CancelAsk { id: String },
    CancelBid { id: String },
    ExpireAsk { id: String },
    ExpireBid { id: String },
    RejectAsk { id: String, size: Option<u128> },
    RejectBid { id: String, size: Option<u128> },
    Match { ask_id: String, bid_id: String, price: String, size: u128 },
    Modify(Modify),
    /// a contract migration (code upgrade hook) with the given MigrateMsg JSON; not an execute request
    Migrate(Value),
}

#[derive(Clone, Debug, Default, PartialEq, Eq)]
pub struct Modify {
    pub approvers: Option<Vec<String>>,
    pub executors: Option<Vec<String>>,
    pub ask_fee_rate: Option<String>,
    pub ask_fee_account: Option<String>,
    pub bid_fee_rate: Option<String>,
    pub bid_fee_account: Option<String>,
    pub ask_required_attributes: Option<Vec<String>>,
    pub bid_required_attributes: Option<Vec<String>>,
}

impl Req {
    pub fn kind(&self) -> &'static str {
        match self {
            Req::CreateAsk { .. } => "create_ask",
            Req::CreateBid { .. } => "create_bid",
            Req::ApproveAsk { .. } => "approve_ask",
            Req::CancelAsk { .. } => "cancel_ask",
            Req::CancelBid { .. } => "cancel_bid",
            Req::ExpireAsk { .. } => "expire_ask",
            Req::ExpireBid { .. } => "expire_bid",
            Req::RejectAsk { .. } => "reject_ask",
            Req::RejectBid { .. } => "reject_bid",
            Req::Match { .. } => "execute",
            Req::Modify(_) => "modify_contract",
            Req::Migrate(_) => "migrate",
        }
    }
    pub fn to_value(&self) -> Value {
        let u = |x: &u128| Value::String(x.to_string());
        match self {
            Req::CreateAsk { id, base, quote, price, size } => json!({"create_ask": {
                "id": id, "base": base, "quote": quote, "price": price, "size": u(size)}}),
            Req::CreateBid { id, base, fee, price, quote, quote_size, size } => {
                let mut m = json!({"id": id, "base": base, "price": price, "quote": quote,
                    "quote_size": u(quote_size), "size": u(size)});
                if let Some((d, a)) = fee {
                    m["fee"] = json!({"denom": d, "amount": u(a)});
                }
                json!({ "create_bid": m })
            }
            Req::ApproveAsk { id, base, size } => {
                json!({"approve_ask": {"id": id, "base": base, "size": u(size)}})
            }
            Req::CancelAsk { id } => json!({"cancel_ask": {"id": id}}),
            Req::CancelBid { id } => json!({"cancel_bid": {"id": id}}),
            Req::ExpireAsk { id } => json!({"expire_ask": {"id": id}}),
            Req::ExpireBid { id } => json!({"expire_bid": {"id": id}}),
            Req::RejectAsk { id, size } => match size {
                Some(s) => json!({"reject_ask": {"id": id, "size": u(s)}}),
                None => json!({"reject_ask": {"id": id}}),
            },
            Req::RejectBid { id, size } => match size {
                Some(s) => json!({"reject_bid": {"id": id, "size": u(s)}}),
                None => json!({"reject_bid": {"id": id}}),
            },
            Req::Match { ask_id, bid_id, price, size } => json!({"execute_match": {
                "ask_id": ask_id, "bid_id": bid_id, "price": price, "size": u(size)}}),
            Req::Modify(m) => {
                let mut o = serde_json::Map::new();
                let mut put = |k: &str, v: Option<Value>| {
                    if let Some(v) = v {
                        o.insert(k.to_string(), v);
                    }
                };
                put("approvers", m.approvers.as_ref().map(|v| json!(v)));
                put("executors", m.executors.as_ref().map(|v| json!(v)));
                put("ask_fee_rate", m.ask_fee_rate.as_ref().map(|v| json!(v)));
                put("ask_fee_account", m.ask_fee_account.as_ref().map(|v| json!(v)));
                put("bid_fee_rate", m.bid_fee_rate.as_ref().map(|v| json!(v)));
                put("bid_fee_account", m.bid_fee_account.as_ref().map(|v| json!(v)));
                put(
                    "ask_required_attributes",
                    m.ask_required_attributes.as_ref().map(|v| json!(v)),
                );
                put(
                    "bid_required_attributes",
                    m.bid_required_attributes.as_ref().map(|v| json!(v)),
                );
                json!({ "modify_contract": Value::Object(o) })
            }
            Req::Migrate(v) => v.clone(),
        }
    }
}

/// One request of an alphabet: who sends it, with what funds, and the message.
#[derive(Clone, Debug)]
pub struct Act {
    pub sender: String,
    pub funds: Vec<Coin>,
    pub req: Req,
    pub json: String,
    pub msg: ExecuteMsg,
    /// Some for Req::Migrate: the request goes to the migrate entry point instead
    pub migrate: Option<ats_smart_contract::msg::MigrateMsg>,
}

impl Act {
    pub fn new(sender: &str, funds: Vec<(u128, &str)>, req: Req) -> Act {
        let json = req.to_value().to_string();
        let migrate = match &req {
            Req::Migrate(_) => Some(crate::chain::parse_migrate(&json).unwrap_or_else(|e| panic!("migrate message does not parse: {json}: {e}"))),
            _ => None,
        };
        let msg = if migrate.is_some() {
            parse_execute(r#"{"cancel_ask":{"id":""}}"#).unwrap()
        } else {
            parse_execute(&json).unwrap_or_else(|e| panic!("alphabet request does not parse as ExecuteMsg: {json}: {e}"))
        };
        Act {
            sender: sender.to_string(),
            funds: funds.into_iter().map(|(a, d)| cosmwasm_std::coin(a, d)).collect(),
            req,
            json,
            msg,
            migrate,
        }
    }
    pub fn with_sender(&self, s: &str) -> Act {
        let mut a = self.clone();
        a.sender = s.to_string();
        a
    }
    pub fn with_funds(&self, funds: Vec<(u128, &str)>) -> Act {
        let mut a = self.clone();
        a.funds = funds.into_iter().map(|(a, d)| cosmwasm_std::coin(a, d)).collect();
        a
    }
    pub fn describe(&self) -> String {
        let f: Vec<String> = self.funds.iter().map(|c| format!("{}{}", c.amount, c.denom)).collect();
        format!("{} [{}] {}", self.sender, f.join(","), self.json)
    }
    pub fn to_replay(&self) -> Value {
        if self.migrate.is_some() {
            return json!({"op": "execute", "kind": "migrate", "sender": self.sender, "funds": [], "msg": serde_json::from_str::<Value>(&self.json).unwrap()});
        }
        json!({"op": "execute", "sender": self.sender,
            "funds": self.funds.iter().map(|c| json!({"denom": c.denom, "amount": c.amount.to_string()})).collect::<Vec<_>>(),
            "msg": serde_json::from_str::<Value>(&self.json).unwrap()})
    }
}

/// Role → address. Aliasing variants merge several roles onto one address.
#[derive(Clone, Debug)]
pub struct Roles(pub BTreeMap<&'static str, String>);

pub const ROLE_NAMES: [&str; 11] = [
    "seller1", "seller2", "buyer1", "buyer2", "approver", "approver2", "exec", "exec2", "askfee",
    "bidfee", "stranger",
];

impl Roles {
    pub fn variant(v: &str) -> Roles {
        let mut m: BTreeMap<&'static str, String> =
            ROLE_NAMES.iter().map(|r| (*r, r.to_string())).collect();
        match v {
            "R0" => {}
            "R1" => {
                m.insert("seller1", "approver".into());
            }
            "R2" => {
                m.insert("buyer1", "bidfee".into());
                m.insert("seller1", "askfee".into());
            }
            "R3" => {
                m.insert("seller1", "exec".into());
                m.insert("buyer1", "exec".into());
            }
            "R4" => {
                for r in ["seller1", "buyer1", "approver", "exec", "askfee", "bidfee"] {
                    m.insert(r, "omni".into());
                }
            }
            // the approver collects both fees
            "R5" => {
                m.insert("askfee", "approver".into());
                m.insert("bidfee", "approver".into());
            }
            // the buyer is also an approver, the seller collects the bid fee, the executor the ask fee
            "R6" => {
                m.insert("buyer1", "approver".into());
                m.insert("seller1", "bidfee".into());
                m.insert("askfee", "exec".into());
            }
            _ => panic!("unknown role variant {v}"),
        }
        Roles(m)
    }
    pub fn get(&self, r: &str) -> &str {
        self.0.get(r).unwrap_or_else(|| panic!("role {r}")).as_str()
    }
    /// every distinct address of the scenario
    pub fn accounts(&self) -> Vec<String> {
        let mut v: Vec<String> = self.0.values().cloned().collect();
        v.sort();
        v.dedup();
        v
    }
}

/// Everything that defines the closed system of one exploration except the request menus.
#[derive(Clone, Debug)]
pub struct Cfg {
    pub precision: u128,
    pub increment: u128,
    pub ask_fee: Option<(String, String)>, // (rate, account)
    pub bid_fee: Option<(String, String)>,
    pub base: String,
    pub convs: Vec<String>,
    pub quotes: Vec<String>,
    pub approvers: Vec<String>,
    pub executors: Vec<String>,
    pub ask_attrs: Vec<String>,
    pub bid_attrs: Vec<String>,
    pub chain: Chain,
    pub roles: Roles,
}

impl Cfg {
    pub fn new(precision: u128, increment: u128, fee: (&str, &str), roles: &str) -> Cfg {
        let roles = Roles::variant(roles);
        let f = |rate: &str, acct: &str| {
            if rate.is_empty() {
                None
            } else {
                Some((rate.to_string(), roles.get(acct).to_string()))
            }
        };
        Cfg {
            precision,
            increment,
            ask_fee: f(fee.0, "askfee"),
            bid_fee: f(fee.1, "bidfee"),
            base: "base".into(),
            convs: vec!["conv".into()],
            quotes: vec!["q1".into()],
            approvers: vec![roles.get("approver").to_string(), roles.get("approver2").to_string()],
            executors: vec![roles.get("exec").to_string()],
            ask_attrs: vec![],
            bid_attrs: vec![],
            chain: Chain::default(),
            roles,
        }
    }
    pub fn markers(mut self, m: &[(&str, Marker)]) -> Cfg {
        let mut t = BTreeMap::new();
        for (d, k) in m {
            t.insert(d.to_string(), *k);
        }
        self.chain.markers = Arc::new(t);
        self
    }
    pub fn restricted(&self, d: &str) -> bool {
        self.chain.restricted(d)
    }
    pub fn instantiate_value(&self) -> Value {
        let mut v = json!({
            "name": "ats", "base_denom": self.base, "convertible_base_denoms": self.convs,
            "supported_quote_denoms": self.quotes, "approvers": self.approvers,
            "executors": self.executors,
            "ask_required_attributes": self.ask_attrs, "bid_required_attributes": self.bid_attrs,
            "price_precision": self.precision.to_string(), "size_increment": self.increment.to_string()});
        if let Some((r, a)) = &self.ask_fee {
            v["ask_fee_rate"] = json!(r);
            v["ask_fee_account"] = json!(a);
        }
        if let Some((r, a)) = &self.bid_fee {
            v["bid_fee_rate"] = json!(r);
            v["bid_fee_account"] = json!(a);
        }
        v
    }
}

/// Parameters of the life-cycle alphabet L.
#[derive(Clone, Debug)]
pub struct Menu {
    pub ask_slots: usize,
    pub bid_slots: usize,
    /// price strings
    pub prices: Vec<&'static str>,
    /// order sizes
    pub sizes: Vec<u128>,
    pub match_sizes: Vec<u128>,
    /// explicit partial reject sizes
    pub reject_sizes: Vec<u128>,
    /// ask base denominations offered
    pub ask_bases: Vec<&'static str>,
    /// approvals also by the second approver
    pub two_approvers: bool,
    /// configuration changes that are part of L
    pub modifies: Vec<(&'static str, Modify)>,
    /// quote denominations offered (empty = the first supported one)
    pub quotes: Vec<&'static str>,
    /// migrations (MigrateMsg JSON) that are part of L: the contract is upgraded in place mid-history
    pub migrates: Vec<(&'static str, Value)>,
}

fn exact_total(price: &str, size: u128) -> Option<u128> {
    let p = crate::refmodel::parse_dec(price)?;
    p.mul(crate::refmodel::Rat::int(size)?)?.to_u128()
}

pub fn fee_due(rate: Option<&str>, total: u128) -> u128 {
    match rate {
        None => 0,
        Some(r) => crate::refmodel::parse_dec(r)
            .and_then(|r| r.mul(crate::refmodel::Rat::int(total)?))
            .and_then(|x| x.round_half_away())
            .unwrap_or(0),
    }
}

/// escrow funds for an amount of a denomination: attached unless the denomination is restricted
fn escrow<'a>(cfg: &Cfg, amount: u128, denom: &'a str) -> Vec<(u128, &'a str)> {
    if cfg.restricted(denom) {
        vec![]
    } else {
        vec![(amount, denom)]
    }
}

pub fn mk_create_ask(cfg: &Cfg, slot: usize, base: &str, price: &str, size: u128) -> Act {
    let q = cfg.quotes[0].clone();
    mk_create_ask_q(cfg, slot, base, price, size, &q)
}

pub fn mk_create_ask_q(cfg: &Cfg, slot: usize, base: &str, price: &str, size: u128, quote: &str) -> Act {
    let owner = cfg.roles.get(if slot % 2 == 0 { "seller1" } else { "seller2" });
    Act::new(
        owner,
        escrow(cfg, size, base),
        Req::CreateAsk {
            id: ASK_IDS[slot].into(),
            base: base.into(),
            quote: quote.to_string(),
            price: price.into(),
            size,
        },
    )
}

pub fn mk_create_bid(cfg: &Cfg, slot: usize, price: &str, size: u128) -> Option<Act> {
    let q = cfg.quotes[0].clone();
    mk_create_bid_q(cfg, slot, price, size, &q)
}

pub fn mk_create_bid_q(cfg: &Cfg, slot: usize, price: &str, size: u128, quote: &str) -> Option<Act> {
    let owner = cfg.roles.get(if slot % 2 == 0 { "buyer1" } else { "buyer2" });
    let total = exact_total(price, size)?;
    if total == 0 {
        return None;
    }
    let fee = fee_due(cfg.bid_fee.as_ref().map(|f| f.0.as_str()), total);
    let q = quote.to_string();
    Some(Act::new(
        owner,
        escrow(cfg, total + fee, &q),
        Req::CreateBid {
            id: BID_IDS[slot].into(),
            base: cfg.base.clone(),
            fee: if fee > 0 { Some((q.clone(), fee)) } else { None },
            price: price.into(),
            quote: q.clone(),
            quote_size: total,
            size,
        },
    ))
}

/// The life-cycle alphabet: well-shaped requests a real participant would send.
pub fn alphabet_l(cfg: &Cfg, m: &Menu) -> Vec<Act> {
    let r = &cfg.roles;
    let exec = r.get("exec");
    let mut v = vec![];
    for slot in 0..m.ask_slots {
        let id = ASK_IDS[slot];
        let owner = r.get(if slot % 2 == 0 { "seller1" } else { "seller2" });
        let quotes: Vec<String> = if m.quotes.is_empty() { vec![cfg.quotes[0].clone()] } else { m.quotes.iter().map(|s| s.to_string()).collect() };
        for base in &m.ask_bases {
            for p in &m.prices {
                for s in &m.sizes {
                    for q in &quotes {
                        v.push(mk_create_ask_q(cfg, slot, base, p, *s, q));
                    }
                }
            }
        }
        if m.ask_bases.iter().any(|b| *b != cfg.base) {
            let mut approvers = vec![r.get("approver")];
            if m.two_approvers {
                approvers.push(r.get("approver2"));
            }
            // approval sizes: every size an ask can currently have
            let mut asz: Vec<u128> = m.sizes.clone();
            for s in &m.sizes {
                for rj in &m.reject_sizes {
                    if rj < s {
                        asz.push(s - rj);
                    }
                }
            }
            asz.sort();
            asz.dedup();
            for ap in approvers {
                for s in &asz {
                    v.push(Act::new(
                        ap,
                        escrow(cfg, *s, &cfg.base),
                        Req::ApproveAsk { id: id.into(), base: cfg.base.clone(), size: *s },
                    ));
                }
            }
        }
        v.push(Act::new(owner, vec![], Req::CancelAsk { id: id.into() }));
        v.push(Act::new(exec, vec![], Req::ExpireAsk { id: id.into() }));
        for s in &m.reject_sizes {
            v.push(Act::new(exec, vec![], Req::RejectAsk { id: id.into(), size: Some(*s) }));
        }
    }
    for slot in 0..m.bid_slots {
        let id = BID_IDS[slot];
        let owner = r.get(if slot % 2 == 0 { "buyer1" } else { "buyer2" });
        let quotes: Vec<String> = if m.quotes.is_empty() { vec![cfg.quotes[0].clone()] } else { m.quotes.iter().map(|s| s.to_string()).collect() };
        for p in &m.prices {
            for s in &m.sizes {
                for q in &quotes {
                    if let Some(a) = mk_create_bid_q(cfg, slot, p, *s, q) {
                        v.push(a);
                    }
                }
            }
        }
        v.push(Act::new(owner, vec![], Req::CancelBid { id: id.into() }));
        v.push(Act::new(exec, vec![], Req::ExpireBid { id: id.into() }));
        for s in &m.reject_sizes {
            v.push(Act::new(exec, vec![], Req::RejectBid { id: id.into(), size: Some(*s) }));
        }
    }
    for a in 0..m.ask_slots {
        for b in 0..m.bid_slots {
            for p in &m.prices {
                for s in &m.match_sizes {
                    v.push(Act::new(
                        exec,
                        vec![],
                        Req::Match {
                            ask_id: ASK_IDS[a].into(),
                            bid_id: BID_IDS[b].into(),
                            price: p.to_string(),
                            size: *s,
                        },
                    ));
                }
            }
        }
    }
    for (_, md) in &m.modifies {
        v.push(Act::new(exec, vec![], Req::Modify(md.clone())));
    }
    for (_, mg) in &m.migrates {
        v.push(Act::new("admin", vec![], Req::Migrate(mg.clone())));
    }
    v
}

/// A named closed system: configuration + environment + request menus.
pub struct Scenario {
    pub name: String,
    pub cfg: Cfg,
    pub l: Vec<Act>,
    pub p: Vec<Act>,
    /// raw storage writes applied after instantiate (legacy / old-format seeds)
    pub seed: Vec<(Vec<u8>, Vec<u8>)>,
    pub menu: Menu,
    /// the book was carried over from an earlier contract version: after the seeds, the version
    /// record is set to this value and `migrate` runs once with this message; the exploration
    /// starts from the migrated state
    pub pre_migrate: Option<(String, Value)>,
}

// ---------------------------------------------------------------------------------------------
// JSON -> Req (replay files)

fn vs(v: &Value, k: &str) -> Option<String> {
    v.get(k)?.as_str().map(|s| s.to_string())
}
fn vu(v: &Value, k: &str) -> Option<u128> {
    v.get(k)?.as_str()?.parse().ok()
}
fn vlist(v: &Value, k: &str) -> Option<Vec<String>> {
    v.get(k)?.as_array().map(|a| a.iter().filter_map(|x| x.as_str().map(|s| s.to_string())).collect())
}

impl Req {
    pub fn from_value(v: &Value) -> Option<Req> {
        let o = v.as_object()?;
        let (k, b) = o.iter().next()?;
        Some(match k.as_str() {
            "create_ask" => Req::CreateAsk { id: vs(b, "id")?, base: vs(b, "base")?, quote: vs(b, "quote")?, price: vs(b, "price")?, size: vu(b, "size")? },
            "create_bid" => Req::CreateBid {
                id: vs(b, "id")?,
                base: vs(b, "base")?,
                fee: match b.get("fee") {
                    Some(f) if !f.is_null() => Some((vs(f, "denom")?, vu(f, "amount")?)),
                    _ => None,
                },
                price: vs(b, "price")?,
                quote: vs(b, "quote")?,
                quote_size: vu(b, "quote_size")?,
                size: vu(b, "size")?,
            },
            "approve_ask" => Req::ApproveAsk { id: vs(b, "id")?, base: vs(b, "base")?, size: vu(b, "size")? },
            "cancel_ask" => Req::CancelAsk { id: vs(b, "id")? },
            "cancel_bid" => Req::CancelBid { id: vs(b, "id")? },
            "expire_ask" => Req::ExpireAsk { id: vs(b, "id")? },
            "expire_bid" => Req::ExpireBid { id: vs(b, "id")? },
            "reject_ask" => Req::RejectAsk { id: vs(b, "id")?, size: vu(b, "size") },
            "reject_bid" => Req::RejectBid { id: vs(b, "id")?, size: vu(b, "size") },
            "execute_match" => Req::Match { ask_id: vs(b, "ask_id")?, bid_id: vs(b, "bid_id")?, price: vs(b, "price")?, size: vu(b, "size")? },
            "modify_contract" => Req::Modify(Modify {
                approvers: vlist(b, "approvers"),
                executors: vlist(b, "executors"),
                ask_fee_rate: vs(b, "ask_fee_rate"),
                ask_fee_account: vs(b, "ask_fee_account"),
                bid_fee_rate: vs(b, "bid_fee_rate"),
                bid_fee_account: vs(b, "bid_fee_account"),
                ask_required_attributes: vlist(b, "ask_required_attributes"),
                bid_required_attributes: vlist(b, "bid_required_attributes"),
            }),
            _ => return None,
        })
    }
}

impl Act {
    pub fn from_replay(v: &Value) -> Option<Act> {
        let sender = vs(v, "sender")?;
        if v.get("kind").and_then(|k| k.as_str()) == Some("migrate") {
            return Some(Act::new(&sender, vec![], Req::Migrate(v.get("msg")?.clone())));
        }
        let req = Req::from_value(v.get("msg")?)?;
        let funds: Vec<(u128, String)> = v
            .get("funds")?
            .as_array()?
            .iter()
            .filter_map(|c| Some((vu(c, "amount")?, vs(c, "denom")?)))
            .collect();
        Some(Act::new(&sender, funds.iter().map(|(a, d)| (*a, d.as_str())).collect(), req))
    }
}

impl Cfg {
    /// the closed system of a replay file
    pub fn setup_value_pm(&self, seed: &[(Vec<u8>, Vec<u8>)], pre_migrate: &Option<(String, Value)>) -> Value {
        let mut v = self.setup_value(seed);
        if let Some((ver, msg)) = pre_migrate {
            v["pre_migrate"] = json!({"stored_version": ver, "migrate": msg});
        }
        v
    }
    pub fn setup_value(&self, seed: &[(Vec<u8>, Vec<u8>)]) -> Value {
        let mk = |m: crate::chain::Marker| match m {
            crate::chain::Marker::Restricted => "restricted",
            crate::chain::Marker::RestrictedAttrs => "restricted-with-required-attributes",
            crate::chain::Marker::Coin => "coin",
            crate::chain::Marker::None => "none",
        };
        json!({
            "instantiate": self.instantiate_value(),
            "markers": self.chain.markers.iter().map(|(k, v)| (k.clone(), json!(mk(*v)))).collect::<serde_json::Map<_, _>>(),
            "attributes": self.chain.attrs.iter().map(|(k, v)| (k.clone(), json!(v))).collect::<serde_json::Map<_, _>>(),
            "seed": seed.iter().map(|(k, v)| json!([String::from_utf8_lossy(k), String::from_utf8_lossy(v)])).collect::<Vec<_>>(),
        })
    }
    pub fn from_setup(v: &Value) -> Option<(Cfg, Vec<(Vec<u8>, Vec<u8>)>)> {
        let i = v.get("instantiate")?;
        let fee = |r: &str, a: &str| -> Option<(String, String)> { Some((vs(i, r)?, vs(i, a)?)) };
        let mut cfg = Cfg::new(0, 1, ("", ""), "R0");
        cfg.precision = vu(i, "price_precision")?;
        cfg.increment = vu(i, "size_increment")?;
        cfg.ask_fee = fee("ask_fee_rate", "ask_fee_account");
        cfg.bid_fee = fee("bid_fee_rate", "bid_fee_account");
        cfg.base = vs(i, "base_denom")?;
        cfg.convs = vlist(i, "convertible_base_denoms")?;
        cfg.quotes = vlist(i, "supported_quote_denoms")?;
        cfg.approvers = vlist(i, "approvers")?;
        cfg.executors = vlist(i, "executors")?;
        cfg.ask_attrs = vlist(i, "ask_required_attributes")?;
        cfg.bid_attrs = vlist(i, "bid_required_attributes")?;
        let mut mk = BTreeMap::new();
        for (k, x) in v.get("markers")?.as_object()? {
            mk.insert(
                k.clone(),
                match x.as_str()? {
                    "restricted" => crate::chain::Marker::Restricted,
                    "restricted-with-required-attributes" => crate::chain::Marker::RestrictedAttrs,
                    "coin" => crate::chain::Marker::Coin,
                    _ => crate::chain::Marker::None,
                },
            );
        }
        cfg.chain.markers = Arc::new(mk);
        let mut at = BTreeMap::new();
        for (k, x) in v.get("attributes")?.as_object()? {
            at.insert(k.clone(), x.as_array()?.iter().filter_map(|s| s.as_str().map(|s| s.to_string())).collect());
        }
        cfg.chain.attrs = Arc::new(at);
        let mut seed = vec![];
        for kv in v.get("seed")?.as_array()? {
            let a = kv.as_array()?;
            seed.push((a.first()?.as_str()?.as_bytes().to_vec(), a.get(1)?.as_str()?.as_bytes().to_vec()));
        }
        Some((cfg, seed))
    }
}

/// Execute one alphabet request (an execute request, or a migration) on a copy of `store`.
pub fn step_act(store: &crate::chain::Store, chain: &Chain, act: &Act) -> crate::chain::Outcome {
    match &act.migrate {
        Some(m) => crate::chain::do_migrate(store, chain, m),
        None => crate::chain::step(store, chain, &act.sender, &act.funds, &act.msg),
    }
}
