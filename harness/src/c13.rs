//! C13: instantiation accepts exactly the coherent configurations (exhaustive input enumeration),
//! plus the integrality consequence on closures per accepted (precision, increment).

use crate::catalogue::Tier;
use crate::chain::{do_instantiate, do_query, parse_instantiate, parse_query, Chain, Outcome, QueryOutcome, Store};
use crate::refmodel::*;
use serde_json::{json, Value};
use std::collections::BTreeMap;
use std::sync::atomic::{AtomicUsize, Ordering};
use std::sync::Mutex;

#[derive(Clone, Debug, PartialEq, Eq)]
pub struct Shape {
    pub precision: u128,
    pub increment: u128,
    pub name: usize,
    pub base: usize,
    pub convs: usize,
    pub quotes: usize,
    pub executors: usize,
    pub approvers: usize,
    pub ask_pair: usize,
    pub bid_pair: usize,
    pub ask_attrs: usize,
    pub bid_attrs: usize,
}

const NAMES: [&str; 2] = ["ats", ""];
const BASES: [&str; 2] = ["base", ""];
fn convs(i: usize) -> Vec<&'static str> {
    [vec!["conv"], vec![]][i].clone()
}
fn quotes(i: usize) -> Vec<&'static str> {
    [vec!["q1"], vec![], vec!["q1", "q2"]][i].clone()
}
fn executors(i: usize) -> Vec<&'static str> {
    [vec!["exec"], vec![], vec!["X"], vec!["exec", "exec2"], vec!["EXEC"], vec!["exec", ""]][i].clone()
}
fn approvers(i: usize) -> Vec<&'static str> {
    // the last one: an account that is also an executor, and a repeated entry
    [vec!["approver"], vec![], vec!["X"], vec!["approver", "Approver2"], vec!["approver", "exec", "approver"]][i].clone()
}
/// (rate, account)
fn pair(i: usize, acct: &'static str) -> (Option<&'static str>, Option<&'static str>) {
    match i {
        0 => (None, None),
        1 => (Some("0.25"), Some(acct)),
        2 => (Some(""), Some("")),
        3 => (Some("0.25"), None),
        4 => (None, Some(acct)),
        5 => (Some("abc"), Some(acct)),
        6 => (Some(""), Some(acct)),
        7 => (Some("0.25"), Some("X")),
        8 => (Some("0.25"), Some("")),
        9 => (Some("0"), Some(acct)),
        10 => (Some("abc"), Some("X")),
        11 => (Some("0.25 "), Some(acct)),
        12 => (Some(" 0.25"), Some(acct)),
        // another rate, collected by the ask-fee account (for the bid pair: one account for both fees, two rates)
        13 => (Some("0.5"), Some("askfee")),
        // more decimal places than a 96-bit decimal carries (31): still the number 0.25
        _ => (Some("0.2500000000000000000000000000000"), Some(acct)),
    }
}
fn attrs(i: usize) -> Vec<&'static str> {
    [vec![], vec!["kyc"]][i].clone()
}
const DIMS: [usize; 10] = [2, 2, 2, 3, 6, 5, 15, 15, 2, 2];

impl Shape {
    fn baseline(p: u128, inc: u128) -> Shape {
        Shape { precision: p, increment: inc, name: 0, base: 0, convs: 0, quotes: 0, executors: 0, approvers: 0, ask_pair: 1, bid_pair: 1, ask_attrs: 0, bid_attrs: 0 }
    }
    fn get(&self, d: usize) -> usize {
        [self.name, self.base, self.convs, self.quotes, self.executors, self.approvers, self.ask_pair, self.bid_pair, self.ask_attrs, self.bid_attrs][d]
    }
    fn set(&mut self, d: usize, v: usize) {
        match d {
            0 => self.name = v,
            1 => self.base = v,
            2 => self.convs = v,
            3 => self.quotes = v,
            4 => self.executors = v,
            5 => self.approvers = v,
            6 => self.ask_pair = v,
            7 => self.bid_pair = v,
            8 => self.ask_attrs = v,
            _ => self.bid_attrs = v,
        }
    }
    pub fn to_value(&self) -> Value {
        let mut v = json!({
            "name": NAMES[self.name], "base_denom": BASES[self.base],
            "convertible_base_denoms": convs(self.convs), "supported_quote_denoms": quotes(self.quotes),
            "approvers": approvers(self.approvers), "executors": executors(self.executors),
            "ask_required_attributes": attrs(self.ask_attrs), "bid_required_attributes": attrs(self.bid_attrs),
            "price_precision": self.precision.to_string(), "size_increment": self.increment.to_string(),
        });
        let (r, a) = pair(self.ask_pair, "askfee");
        if let Some(r) = r {
            v["ask_fee_rate"] = json!(r);
        }
        if let Some(a) = a {
            v["ask_fee_account"] = json!(a);
        }
        let (r, a) = pair(self.bid_pair, "bidfee");
        if let Some(r) = r {
            v["bid_fee_rate"] = json!(r);
        }
        if let Some(a) = a {
            v["bid_fee_account"] = json!(a);
        }
        v
    }
    /// reasons the configuration is incoherent (empty = coherent)
    pub fn incoherent(&self) -> Vec<&'static str> {
        let mut f = vec![];
        if NAMES[self.name].is_empty() {
            f.push("empty-name");
        }
        if BASES[self.base].is_empty() {
            f.push("empty-base");
        }
        if quotes(self.quotes).is_empty() {
            f.push("empty-quote-list");
        }
        if executors(self.executors).is_empty() {
            f.push("empty-executor-list");
        }
        if self.precision > 18 {
            f.push("precision-above-18");
        }
        if self.increment < 1 {
            f.push("increment-below-1");
        } else if self.precision <= 38 && self.increment % 10u128.pow(self.precision as u32) != 0 {
            f.push("increment-not-multiple-of-10^precision");
        }
        if executors(self.executors).iter().chain(approvers(self.approvers).iter()).any(|a| !valid_addr(a)) {
            f.push("invalid-address");
        }
        for (p, acct, tag) in [(self.ask_pair, "askfee", "ask"), (self.bid_pair, "bidfee", "bid")] {
            match pair(p, acct) {
                (None, None) => {}
                (Some(r), Some(a)) => {
                    if !(r.is_empty() && a.is_empty()) {
                        if parse_dec(r).is_none() && dec_is_clear(r) {
                            f.push(if tag == "ask" { "ask-rate-unparsable" } else { "bid-rate-unparsable" });
                        }
                        if !valid_addr(a) {
                            f.push(if tag == "ask" { "ask-fee-account-invalid" } else { "bid-fee-account-invalid" });
                        }
                    }
                }
                _ => f.push(if tag == "ask" { "ask-pair-half-supplied" } else { "bid-pair-half-supplied" }),
            }
        }
        f
    }
    /// a fee rate whose parse is a matter of taste (e.g. padded with blanks): no accept/refuse verdict,
    /// but if the configuration is accepted it must be usable
    pub fn undecided(&self) -> bool {
        [(self.ask_pair, "askfee"), (self.bid_pair, "bidfee")].iter().any(|(p, a)| match pair(*p, a) {
            (Some(r), Some(ac)) => !(r.is_empty() && ac.is_empty()) && parse_dec(r).is_none() && !dec_is_clear(r),
            _ => false,
        })
    }
    fn expected_info(&self) -> Value {
        let fee = |p: usize, acct: &'static str| -> Value {
            match pair(p, acct) {
                (Some(r), Some(a)) if !(r.is_empty() && a.is_empty()) => json!({"account": a, "rate": r}),
                _ => Value::Null,
            }
        };
        json!({
            "name": NAMES[self.name], "bind_name": "", "base_denom": BASES[self.base],
            "convertible_base_denoms": convs(self.convs), "supported_quote_denoms": quotes(self.quotes),
            "approvers": approvers(self.approvers), "executors": executors(self.executors),
            "ask_fee_info": fee(self.ask_pair, "askfee"), "bid_fee_info": fee(self.bid_pair, "bidfee"),
            "ask_required_attributes": attrs(self.ask_attrs), "bid_required_attributes": attrs(self.bid_attrs),
            "price_precision": self.precision.to_string(), "size_increment": self.increment.to_string(),
        })
    }
}

pub fn increments(p: u128) -> Vec<u128> {
    let mut v: Vec<u128> = vec![0, 1, 2, 5];
    if p > 40 {
        // increments that would pair with the truncated precision
        v.extend([100, 1_000_000_000_000_000_000]);
    }
    if p <= 36 {
        let t = 10u128.pow(p as u32);
        v.extend([t.saturating_sub(1), t, t + 1, 2 * t, 3 * t, 10 * t, 7 * t + t / 2]);
        if p >= 1 {
            v.push(5 * 10u128.pow(p as u32 - 1));
            v.push(10u128.pow(p as u32 - 1));
        }
    }
    v.sort();
    v.dedup();
    v
}

/// (name, version) of the package under /repo, read from its manifest
pub fn package_identity() -> (String, String) {
    let s = std::fs::read_to_string("/repo/Cargo.toml").unwrap_or_default();
    let mut name = String::new();
    let mut ver = String::new();
    let mut in_pkg = false;
    for l in s.lines() {
        let l = l.trim();
        if l.starts_with('[') {
            in_pkg = l == "[package]";
            continue;
        }
        if in_pkg {
            if let Some(r) = l.strip_prefix("name") {
                name = r.trim().trim_start_matches('=').trim().trim_matches('"').to_string();
            }
            if let Some(r) = l.strip_prefix("version") {
                ver = r.trim().trim_start_matches('=').trim().trim_matches('"').to_string();
            }
        }
    }
    (name.replace('-', "_"), ver)
}

#[derive(Default)]
pub struct SweepOut {
    pub calls: u64,
    pub accepted: u64,
    pub refused: u64,
    pub aborted: u64,
    pub distinct_shapes: u64,
    pub usable_checked: u64,
    pub viols: BTreeMap<String, (u64, Value, String)>,
    pub accepted_pairs: Vec<(u128, u128)>,
    pub samples: Vec<Value>,
    pub by_reason: BTreeMap<String, u64>,
}

fn judge(sh: &Shape, ident: &(String, String), out: &mut SweepOut) {
    let v = sh.to_value();
    let js = v.to_string();
    let msg = match parse_instantiate(&js) {
        Ok(m) => m,
        Err(e) => {
            out.viols.entry("C13/machinery/instantiate-json-does-not-parse".into()).or_insert((0, v.clone(), e)).0 += 1;
            return;
        }
    };
    let chain = Chain::default();
    let o = do_instantiate(&Store::default(), &chain, &msg);
    out.calls += 1;
    let bad = sh.incoherent();
    let undecided = bad.is_empty() && sh.undecided();
    let mut viol = |sig: String, detail: String, out: &mut SweepOut| {
        out.viols.entry(sig).or_insert((0, shape_value(sh), detail)).0 += 1;
    };
    match &o {
        Outcome::Accepted(a) => {
            out.accepted += 1;
            if !bad.is_empty() {
                for b in &bad {
                    viol(format!("C13/accepted-although/{b}"), format!("{js}"), out);
                }
                return;
            }
            // stored configuration and version equal the request
            let book = decode_book(&a.store);
            let stored: Option<Value> = a.store.0.get(KEY_INFO).and_then(|x| serde_json::from_slice(x).ok());
            if stored.as_ref() != Some(&sh.expected_info()) {
                viol("C13/stored-configuration-differs-from-request".into(), format!("expected {} stored {:?}", sh.expected_info(), stored.map(|s| s.to_string())), out);
            }
            let ver: Option<Value> = a.store.0.get(KEY_VERSION).and_then(|x| serde_json::from_slice(x).ok());
            // the version record carries the package version (its other field is not pinned by the statement)
            if ver.as_ref().and_then(|v| v.get("version")).and_then(|v| v.as_str()) != Some(ident.1.as_str()) {
                viol("C13/version-record".into(), format!("expected version {} stored {ver:?}", ident.1), out);
            }
            if !book.asks.is_empty() || !book.bids.is_empty() {
                viol("C13/fresh-instance-has-orders".into(), format!("{:?}", a.store.0.keys().map(|k| lossy(k)).collect::<Vec<_>>()), out);
            }
            // the queries report the same
            for (q, key) in [("get_contract_info", KEY_INFO), ("get_version_info", KEY_VERSION)] {
                let qm = parse_query(&json!({q: {}}).to_string()).unwrap();
                let (after, ans) = do_query(&a.store, &chain, &qm);
                if after != a.store {
                    viol("C16/query-modified-state".into(), q.into(), out);
                }
                let got: Option<Value> = match ans {
                    QueryOutcome::Ok(b) => serde_json::from_slice(&b).ok(),
                    _ => None,
                };
                let raw: Option<Value> = a.store.0.get(key).and_then(|x| serde_json::from_slice(x).ok());
                if got.is_none() || got != raw {
                    viol(format!("C13/{q}-differs-from-stored"), format!("{got:?} vs {raw:?}"), out);
                }
            }
            if !out.accepted_pairs.contains(&(sh.precision, sh.increment)) {
                out.accepted_pairs.push((sh.precision, sh.increment));
            }
            // an accepted configuration is usable: a funded order at price 1 can be placed, matched
            // with the configured fees, and returned
            usable(sh, &a.store, out);
        }
        Outcome::Refused(e) => {
            out.refused += 1;
            if undecided {
                *out.by_reason.entry("undecided-rate-spelling".into()).or_insert(0) += 1;
            } else if bad.is_empty() {
                viol(format!("C13/coherent-configuration-refused/{}", e.split(':').next().unwrap_or("").trim().replace(' ', "-")), format!("{e}: {js}"), out);
            } else {
                *out.by_reason.entry(bad[0].to_string()).or_insert(0) += 1;
            }
        }
        Outcome::Aborted => {
            out.aborted += 1;
            if undecided {
                *out.by_reason.entry("undecided-rate-spelling".into()).or_insert(0) += 1;
            } else if bad.is_empty() {
                viol("C13/coherent-configuration-refused/panic".into(), js.clone(), out);
            } else {
                *out.by_reason.entry(bad[0].to_string()).or_insert(0) += 1;
            }
        }
    }
    if out.samples.len() < 4 && (out.calls % 977 == 1) {
        out.samples.push(json!({"instantiate": v, "outcome": o.short(), "reference": if bad.is_empty() { json!("coherent") } else { json!(bad) }}));
    }
}

fn usable(sh: &Shape, store: &Store, out: &mut SweepOut) {
    use crate::chain::step;
    use crate::scenario::{Act, Req, ID_A};
    use std::sync::Arc;
    let mut chain = Chain::default();
    let mut at = BTreeMap::new();
    at.insert("buyer1".to_string(), vec!["kyc".to_string()]);
    at.insert("seller1".to_string(), vec!["kyc".to_string()]);
    chain.attrs = Arc::new(at);
    let inc = sh.increment;
    let rate = |p: usize, acct: &'static str| -> Option<Rat> {
        match pair(p, acct) {
            (Some(r), Some(a)) if !(r.is_empty() && a.is_empty()) => parse_dec(r.trim()),
            _ => Rat::new(0, 1),
        }
    };
    let (bid_rate, ask_rate) = match (rate(sh.bid_pair, "bidfee"), rate(sh.ask_pair, "askfee")) {
        (Some(b), Some(a)) => (b, a),
        _ => return,
    };
    let total = inc; // price 1
    let fee = match Rat::int(total).and_then(|t| bid_rate.mul(t)).and_then(|x| x.round_half_away()) {
        Some(f) => f,
        None => return,
    };
    let ask_fee = match Rat::int(total).and_then(|t| ask_rate.mul(t)).and_then(|x| x.round_half_away()) {
        Some(f) => f,
        None => return,
    };
    if ask_fee > total || total.checked_add(fee).is_none() {
        return;
    }
    let exec = executors(sh.executors)[0];
    let steps = vec![
        Act::new("seller1", vec![(inc, "base")], Req::CreateAsk { id: ID_A.into(), base: "base".into(), quote: "q1".into(), price: "1".into(), size: inc }),
        Act::new("buyer1", vec![(total + fee, "q1")], Req::CreateBid { id: ID_A.into(), base: "base".into(), fee: if fee > 0 { Some(("q1".into(), fee)) } else { None }, price: "1".into(), quote: "q1".into(), quote_size: total, size: inc }),
        Act::new(exec, vec![], Req::Match { ask_id: ID_A.into(), bid_id: ID_A.into(), price: "1".into(), size: inc }),
    ];
    let mut s = store.clone();
    for (i, act) in steps.iter().enumerate() {
        out.calls += 1;
        match crate::scenario::step_act(&s, &chain, act) {
            Outcome::Accepted(a) => {
                if !a.deliverable() {
                    out.viols.entry(format!("C13/accepted-configuration-unusable/{}-undeliverable", act.req.kind())).or_insert((0, shape_value(sh), format!("{:?}", a.flows))).0 += 1;
                    return;
                }
                s = a.store.clone();
            }
            o => {
                out.viols.entry(format!("C13/accepted-configuration-unusable/{}", act.req.kind())).or_insert((0, shape_value(sh), format!("step {i}: {} -> {}", act.describe(), o.short()))).0 += 1;
                return;
            }
        }
    }
    out.usable_checked += 1;
}

fn shapes_for(p: u128, inc: u128, k: usize, full: bool) -> Vec<Shape> {
    let base = Shape::baseline(p, inc);
    let mut v = vec![base.clone()];
    if full {
        // full product
        let mut idx = [0usize; 10];
        loop {
            let mut s = base.clone();
            for d in 0..10 {
                s.set(d, idx[d]);
            }
            v.push(s);
            let mut d = 0;
            loop {
                idx[d] += 1;
                if idx[d] < DIMS[d] {
                    break;
                }
                idx[d] = 0;
                d += 1;
                if d == 10 {
                    return v;
                }
            }
        }
    }
    for d1 in 0..10 {
        for a in 0..DIMS[d1] {
            if a == base.get(d1) {
                continue;
            }
            let mut s1 = base.clone();
            s1.set(d1, a);
            v.push(s1.clone());
            if k >= 2 {
                for d2 in d1 + 1..10 {
                    for b in 0..DIMS[d2] {
                        if b == base.get(d2) {
                            continue;
                        }
                        let mut s2 = s1.clone();
                        s2.set(d2, b);
                        v.push(s2.clone());
                        if k >= 3 {
                            for d3 in d2 + 1..10 {
                                for c in 0..DIMS[d3] {
                                    if c == base.get(d3) {
                                        continue;
                                    }
                                    let mut s3 = s2.clone();
                                    s3.set(d3, c);
                                    v.push(s3);
                                }
                            }
                        }
                    }
                }
            }
        }
    }
    v
}

pub fn sweep(tier: Tier) -> SweepOut {
    let ident = package_identity();
    let mut jobs: Vec<(u128, u128)> = vec![];
    // 2^32 + k and 2^64 + k: values whose low 32 / 64 bits look like a legal precision
    for p in (0..=20u128).chain([38u128, 39, 40, 1 << 32, (1 << 32) + 2, (1 << 32) + 18, (1 << 64) + 18, u128::MAX]) {
        for inc in increments(p) {
            jobs.push((p, inc));
        }
    }
    let next = AtomicUsize::new(0);
    let total = Mutex::new(SweepOut::default());
    let nthreads = crate::engine::threads();
    std::thread::scope(|sc| {
        for _ in 0..nthreads {
            sc.spawn(|| {
                let mut local = SweepOut::default();
                loop {
                    let i = next.fetch_add(1, Ordering::Relaxed);
                    if i >= jobs.len() {
                        break;
                    }
                    let (p, inc) = jobs[i];
                    // thorough: full product for the interesting precisions, 3 deviations elsewhere
                    let pow = if p <= 36 { 10u128.pow(p as u32) } else { 0 };
                    let full = tier == Tier::Thorough && (p <= 2 || (17..=19).contains(&p)) && (inc == pow || inc == pow + 1 || inc <= 1);
                    let k = if tier == Tier::Thorough { 3 } else { 2 };
                    let shapes = shapes_for(p, inc, k, full);
                    local.distinct_shapes += shapes.len() as u64;
                    for s in &shapes {
                        judge(s, &ident, &mut local);
                    }
                }
                let mut t = total.lock().unwrap();
                t.calls += local.calls;
                t.accepted += local.accepted;
                t.refused += local.refused;
                t.aborted += local.aborted;
                t.distinct_shapes += local.distinct_shapes;
                t.usable_checked += local.usable_checked;
                for (k, v) in local.viols {
                    let e = t.viols.entry(k).or_insert((0, v.1.clone(), v.2.clone()));
                    e.0 += v.0;
                }
                for p in local.accepted_pairs {
                    if !t.accepted_pairs.contains(&p) {
                        t.accepted_pairs.push(p);
                    }
                }
                for (k, v) in local.by_reason {
                    *t.by_reason.entry(k).or_insert(0) += v;
                }
                if t.samples.len() < 6 {
                    t.samples.extend(local.samples);
                }
            });
        }
    });
    let mut t = total.into_inner().unwrap();
    t.accepted_pairs.sort();
    t
}

/// prices k / 10^p as decimal strings with exactly p decimals
pub fn price_str(k: u128, p: u32) -> String {
    if p == 0 {
        return k.to_string();
    }
    let t = 10u128.pow(p);
    format!("{}.{:0width$}", k / t, k % t, width = p as usize)
}

/// closures for the integrality consequence: one small book per accepted (precision, increment)
pub fn closure_plan(pairs: &[(u128, u128)], tier: Tier) -> crate::catalogue::Plan {
    use crate::catalogue::{scen, HookKind, Plan};
    use crate::scenario::{Cfg, Menu};
    let mut v = vec![];
    for (p, inc) in pairs {
        if *p > 18 || *inc == 0 {
            continue;
        }
        // keep amounts within the reference model's i128 range
        if (*inc as f64) * 10f64.powi(*p as i32 + 1) > 1e36 {
            continue;
        }
        let t = 10u128.pow(*p as u32);
        let ks: Vec<u128> = if tier == Tier::Thorough { vec![1, 3, t + 1, 7 * t - 1] } else { vec![1, 3, t + 1] };
        let mut ks = ks;
        ks.sort();
        ks.dedup();
        let prices: Vec<&'static str> = ks.iter().map(|k| -> &'static str { Box::leak(price_str(*k, *p as u32).into_boxed_str()) }).collect();
        let cfg = Cfg::new(*p, *inc, ("0.25", "0.25"), "R0");
        let menu = Menu {
            ask_slots: 1,
            bid_slots: 1,
            prices,
            sizes: vec![*inc, 2 * inc],
            match_sizes: vec![*inc, 2 * inc],
            reject_sizes: vec![*inc],
            ask_bases: vec!["base", "conv"],
            two_approvers: false,
            modifies: vec![],
            quotes: vec![],
            migrates: vec![],
        };
        v.push(scen(&format!("B11/p{p}/inc{inc}"), cfg, menu, vec![]));
    }
    Plan { scenarios: v, hooks: vec![HookKind::Exit] }
}

/// re-judge one instantiate message from a replay file
pub fn replay(doc: &Value) -> Result<(bool, Vec<String>), String> {
    let want = doc.get("signature").and_then(|s| s.as_str()).unwrap_or("").to_string();
    let shape: Shape = shape_from(doc.get("shape").ok_or("no shape")?).ok_or("shape not understood")?;
    let mut out = SweepOut::default();
    judge(&shape, &package_identity(), &mut out);
    let mut log = vec![format!("  instantiate {}", shape.to_value())];
    log.push(format!("  reference: {:?}", shape.incoherent()));
    log.push(format!("  accepted {} refused {} aborted {}", out.accepted, out.refused, out.aborted));
    for (k, v) in &out.viols {
        log.push(format!("  !! {k}: {}", v.2));
    }
    Ok((out.viols.contains_key(&want), log))
}

pub fn shape_value(s: &Shape) -> Value {
    json!({"precision": s.precision.to_string(), "increment": s.increment.to_string(),
        "dims": (0..10).map(|d| s.get(d)).collect::<Vec<_>>()})
}

fn shape_from(v: &Value) -> Option<Shape> {
    let mut s = Shape::baseline(v.get("precision")?.as_str()?.parse().ok()?, v.get("increment")?.as_str()?.parse().ok()?);
    for (d, x) in v.get("dims")?.as_array()?.iter().enumerate() {
        s.set(d, x.as_u64()? as usize);
    }
    Some(s)
}
