//! Evidence files (DESIGN §3.5).

use crate::run::{out_root, RunReport};
use serde_json::{json, Value};
use std::collections::BTreeMap;

/// coverage counters that must be non-zero for the property's run not to be vacuous
pub fn required_counters(prop: &str) -> Vec<&'static str> {
    match prop {
        "C01" => vec!["C01/transitions-checked", "accepted/execute", "accepted/reject_ask", "accepted/reject_bid", "accepted/cancel_ask", "accepted/approve_ask", "accepted/modify_contract", "C10/pull-in"],
        "C02" => vec![
            "C02/match/plain/ask-complete/bid-complete/at-bid-price",
            "C02/match/plain/ask-partial/bid-partial/at-ask-price-below-bid",
            "C02/match/ready/ask-partial/bid-complete/at-ask-price-below-bid",
            "C02/match/ready/ask-complete/bid-partial/at-bid-price",
            "C02/ask-fee-rounds-to-zero",
            "C02/ask-fee-whole-proceeds",
            "C02/bid-fill-fee-zero",
            "C02/bid-fee-tie-leeway",
            "C02/coinciding-parties",
        ],
        "C03" => vec![
            "C03/accepted-matches",
            "C03/refused-ineligible",
            "no-verdict/match/funds-attached",
            "C03/refused-solely-because/sender-not-executor",
            "C03/refused-solely-because/ask-not-on-book",
            "C03/refused-solely-because/bid-not-on-book",
            "C03/refused-solely-because/quote-denominations-differ",
            "C03/refused-solely-because/ask-pending-approval",
            "C03/refused-solely-because/ask-price-above-bid-price",
            "C03/refused-solely-because/price-is-neither-limit",
            "C03/refused-solely-because/size-below-1",
            "C03/refused-solely-because/size-above-ask-remainder",
            "C03/refused-solely-because/size-above-bid-remainder",
            "C03/refused-solely-because/executed-quote-not-whole",
            "C03/refused-solely-because/bid-price-quote-not-whole",
            "C03/refused-solely-because/price-unparsable",
        ],
        "C04" => vec![
            "C04/reject_ask/ready/explicit-partial",
            "C04/reject_ask/pending/explicit-partial",
            "C04/reject_bid/fee/explicit-partial",
            "C04/cancel_bid/partly-filled-or-rejected-before",
            "C04/cancel_ask/ready/default-full",
            "C04/expire_bid/fee/default-full",
            "C04/bid-fee-tie-leeway",
        ],
        "C05" => vec!["C05/accepted-guarded/cancel_ask", "C05/accepted-guarded/cancel_bid", "C05/accepted-guarded/execute", "C05/accepted-guarded/approve_ask", "C05/accepted-guarded/modify_contract", "refused/modify_contract", "refused/approve_ask"],
        "C06" => vec!["C06/cancel_ask/canonical-id", "C06/expire_bid/canonical-id", "C06/cancel_bid/legacy-id", "C06/expire_ask/legacy-id", "C06/bid-remainder-not-lot-multiple", "C06/ask-remainder-not-lot-multiple"],
        "C07" => vec![
            "C07/create_ask/admitted", "C07/create_bid/admitted", "C07/create_ask/pull-in", "C07/create_bid/pull-in", "C09/create-bid-fee-rounds-to-zero",
            "C07/create_ask/refused-solely-because/id-not-canonical", "C07/create_ask/refused-solely-because/id-already-on-ask-side",
            "C07/create_ask/refused-solely-because/base-not-traded", "C07/create_ask/refused-solely-because/quote-not-traded",
            "C07/create_ask/refused-solely-because/size-not-positive-lot-multiple", "C07/create_ask/refused-solely-because/price-not-positive",
            "C07/create_ask/refused-solely-because/price-beyond-precision", "C07/create_ask/refused-solely-because/price-unparsable",
            "C07/create_ask/refused-solely-because/funds-not-exactly-the-escrow", "C07/create_ask/refused-solely-because/funds-attached-for-restricted",
            "C07/create_ask/refused-solely-because/missing-attribute",
            "C07/create_bid/refused-solely-because/id-not-canonical", "C07/create_bid/refused-solely-because/id-already-on-bid-side",
            "C07/create_bid/refused-solely-because/base-not-traded", "C07/create_bid/refused-solely-because/quote-not-traded",
            "C07/create_bid/refused-solely-because/size-not-positive-lot-multiple", "C07/create_bid/refused-solely-because/price-beyond-precision",
            "C07/create_bid/refused-solely-because/quote-size-not-price-times-size",
            "C07/create_bid/refused-solely-because/fee-absent-but-due", "C07/create_bid/refused-solely-because/fee-amount-not-the-rate",
            "C07/create_bid/refused-solely-because/fee-denomination-not-quote", "C07/create_bid/refused-solely-because/funds-not-exactly-the-escrow",
            "C07/create_bid/refused-solely-because/funds-attached-for-restricted", "C07/create_bid/refused-solely-because/missing-attribute",
        ],
        "C08" => vec!["C08/approvals-accepted", "C08/ready-states-checked", "C08/pending-ask-reject-attempts", "refused/approve_ask"],
        "C09" => vec!["C09/held-fee-states-checked", "C09/held-fee-exact-tie", "C09/bid-closed-by-match", "C09/bid-closed-by-reversal", "C09/create-bid-fee-nonzero", "C09/create-bid-fee-rounds-to-zero", "C02/ask-fee-whole-proceeds", "C02/bid-fill-fee-zero"],
        "C10" => vec!["C10/bank/base/None", "C10/bank/base/Coin", "C10/transfer/base/Restricted", "C10/transfer/conv/Restricted", "C10/transfer/quote/Restricted", "C10/bank/conv/Coin", "C10/bank/quote/None", "C10/pull-in"],
        "C11" => vec!["C11/frames-compared", "C11/ask-states-checked", "C11/bid-states-checked"],
        "C12" => vec!["C12/accepted-modify/empty-book", "C12/accepted-modify/asks-only", "C12/accepted-modify/bids-only", "C12/accepted-modify/both-sides", "C12/ask_fee-cleared", "refused/modify_contract"],
        "C16" => vec!["C16/get_ask/on-book", "C16/get_bid/on-book", "C16/get_ask/not-on-book-fails", "C16/get_bid/compared-with-cancel", "C16/get_contract_info/compared", "C16/get_version_info/compared"],
        "C17" => vec!["C17/responses-checked", "C17/reject_bid/order_open-true", "C17/reject_bid/order_open-false", "C17/reject_ask/order_open-true", "C17/execute/bid_fee-zero", "C17/execute/ask_fee-nonzero"],
        _ => vec![],
    }
}

pub fn git_head() -> String {
    std::process::Command::new("git")
        .args(["-C", "/repo", "rev-parse", "HEAD"])
        .output()
        .ok()
        .and_then(|o| String::from_utf8(o.stdout).ok())
        .map(|s| s.trim().to_string())
        .unwrap_or_default()
}

pub fn tree_digest() -> String {
    // hash of the contract's sources as they are in the working tree (what was built)
    use std::collections::hash_map::DefaultHasher;
    use std::hash::{Hash, Hasher};
    let mut files: Vec<std::path::PathBuf> = vec![];
    fn walk(d: &std::path::Path, out: &mut Vec<std::path::PathBuf>) {
        if let Ok(rd) = std::fs::read_dir(d) {
            for e in rd.flatten() {
                let p = e.path();
                if p.is_dir() {
                    walk(&p, out);
                } else {
                    out.push(p);
                }
            }
        }
    }
    walk(std::path::Path::new("/repo/src"), &mut files);
    files.push("/repo/Cargo.toml".into());
    files.sort();
    let mut h = DefaultHasher::new();
    for f in files {
        f.hash(&mut h);
        std::fs::read(&f).unwrap_or_default().hash(&mut h);
    }
    format!("{:016x}", h.finish())
}

pub fn seed() -> i64 {
    std::env::var("VERIF_SEED").ok().and_then(|s| s.parse().ok()).unwrap_or(0)
}

pub fn write_evidence(prop: &str, tier: &str, coverage: Value, assumptions: Vec<String>, wall_s: f64, violations: usize, extra: BTreeMap<String, Value>) -> Result<(), String> {
    std::fs::create_dir_all(format!("{}/evidence", out_root())).map_err(|e| e.to_string())?;
    let mut doc = json!({
        "property_id": prop,
        "tier": tier,
        "seed": seed(),
        "level": "model_checking",
        "coverage": coverage,
        "assumptions": assumptions,
        "wall_s": wall_s,
        "violations": violations,
        "repo_head": git_head(),
        "repo_tree_digest": tree_digest(),
    });
    for (k, v) in extra {
        doc[k] = v;
    }
    std::fs::write(format!("{}/evidence/{prop}.json", out_root()), serde_json::to_string_pretty(&doc).unwrap()).map_err(|e| e.to_string())
}

pub fn book_evidence(rep: &RunReport) -> (Value, Vec<String>) {
    let states: usize = rep.scen.iter().map(|s| s.stats.states).sum();
    let l: u64 = rep.scen.iter().map(|s| s.stats.l_transitions).sum();
    let p: u64 = rep.scen.iter().map(|s| s.stats.p_transitions).sum();
    let x: u64 = rep.scen.iter().map(|s| s.stats.extra_execs).sum();
    let exhaustive = rep.scen.iter().all(|s| s.stats.exhaustive) && rep.machinery_error.is_none();
    let req = required_counters(&rep.prop);
    let vac: Vec<&str> = req.iter().copied().filter(|k| rep.cov.get(*k).copied().unwrap_or(0) == 0).collect();
    let cov = json!({
        "states": states,
        "transitions": l + p + x,
        "l_transitions": l,
        "probe_transitions": p,
        "per_state_probe_executions": x,
        "traces_validated_against_impl": l + p + x,
        "exhaustive": exhaustive,
        "samples": rep.samples,
        "scenarios": rep.scen.iter().map(|s| json!({
            "name": s.name, "alphabet_L": s.l, "alphabet_P": s.p,
            "states": s.stats.states, "l_transitions": s.stats.l_transitions, "probe_transitions": s.stats.p_transitions,
            "per_state_probe_executions": s.stats.extra_execs,
            "accepted": s.stats.accepted, "refused": s.stats.refused, "aborted": s.stats.aborted,
            "depth_to_fixpoint": s.stats.depth, "exhaustive": s.stats.exhaustive, "cap": s.stats.cap,
            "digest": format!("{:016x}", s.stats.digest), "wall_s": s.stats.wall_s,
        })).collect::<Vec<_>>(),
        "counters": rep.cov,
        "vacuous_counters": vac,
        "digest_reruns_compared": rep.rerun_checked,
        "scenarios_skipped": rep.skipped,
        "other_property_violations_seen": rep.other_props,
        "known_findings_matched": rep.known.iter().map(|k| k.0.clone()).collect::<Vec<_>>(),
        "explanation": "every transition is one execution of the real execute entry point on a copy of a reachable storage state; the reference prediction is compared with the actual outcome on each, so traces_validated_against_impl equals the transition count",
    });
    let assumptions = vec![
        "values drawn from the scenario alphabets (DESIGN section 5); at most two asks and two bids open at once".to_string(),
        "marker and attribute tables constant during a history; MockApi address rules".to_string(),
        "native x86-64 build of the working-tree sources with overflow checks on, not the wasm artefact".to_string(),
        "ledger properties are established inductively: every transition out of every state of the closure is checked".to_string(),
    ];
    (cov, assumptions)
}
