//! Probe alphabets P: requests derived from life-cycle requests by a bounded number of
//! deviations (DESIGN §3.1). Executed from every L-reachable state, judged by the same
//! oracles, never enqueued.

use crate::refmodel::{parse_dec, Rat};
use crate::scenario::*;
use std::collections::BTreeSet;

fn dedupe(v: Vec<Act>) -> Vec<Act> {
    let mut seen = BTreeSet::new();
    let mut out = vec![];
    for a in v {
        let k = a.describe();
        if seen.insert(k) {
            out.push(a);
        }
    }
    out
}

/// remove probes identical to an L request
pub fn minus_l(p: Vec<Act>, l: &[Act]) -> Vec<Act> {
    let ls: BTreeSet<String> = l.iter().map(|a| a.describe()).collect();
    dedupe(p).into_iter().filter(|a| !ls.contains(&a.describe())).collect()
}

/// C05: every request shape of L from every account of the scenario
pub fn senders(cfg: &Cfg, l: &[Act]) -> Vec<Act> {
    let accts = cfg.roles.accounts();
    let mut v = vec![];
    for a in l {
        for s in &accts {
            if *s != a.sender {
                v.push(a.with_sender(s));
            }
        }
        // an account whose name differs from the legitimate sender's only in letter case is another account
        let up = a.sender.to_uppercase();
        if up != a.sender {
            v.push(a.with_sender(&up));
        }
    }
    dedupe(v)
}

fn all_sizes(m: &Menu, inc: u128) -> Vec<u128> {
    let max = m.sizes.iter().copied().max().unwrap_or(inc);
    let mut v: BTreeSet<u128> = BTreeSet::new();
    if max <= 8 {
        for s in 0..=max + 1 {
            v.insert(s);
        }
    } else {
        v.insert(0);
        v.insert(1);
        let mut cands: BTreeSet<u128> = m.sizes.iter().copied().collect();
        cands.extend(m.match_sizes.iter().copied());
        cands.extend(m.reject_sizes.iter().copied());
        let c2: Vec<u128> = cands.iter().copied().collect();
        for a in &c2 {
            for b in &c2 {
                if a > b {
                    cands.insert(a - b);
                }
            }
        }
        for c in cands {
            v.insert(c.saturating_sub(1));
            v.insert(c);
            v.insert(c + 1);
        }
    }
    v.into_iter().collect()
}

/// other spellings of a price string that denote the same number
pub fn respell(p: &str) -> Vec<String> {
    let mut v = vec![];
    if p.contains('.') {
        v.push(format!("{p}0"));
        v.push(format!("{p}00"));
        if let Some(t) = p.strip_suffix('0') {
            if !t.ends_with('.') {
                v.push(t.to_string());
            }
        }
    } else {
        v.push(format!("{p}.0"));
        v.push(format!("{p}.00"));
    }
    v.push(format!("0{p}"));
    // as many decimal places as a 96-bit decimal can carry (the mantissa of "2.000...0" is 2 x 10^28)
    if p.len() == 1 && p.as_bytes()[0].is_ascii_digit() && p.as_bytes()[0] <= b'7' && p != "0" {
        v.push(format!("{p}.{}", "0".repeat(28)));
    }
    v
}

/// every L match request with its price written in other, numerically equal ways
pub fn match_respell(l: &[Act]) -> Vec<Act> {
    let mut v = vec![];
    // a price strictly between the lowest and the highest whole-number price of the alphabet
    let whole: BTreeSet<u128> = l.iter().filter_map(|a| if let Req::Match { price, .. } = &a.req { price.parse::<u128>().ok() } else { None }).collect();
    let between: Option<String> = match (whole.iter().next(), whole.iter().next_back()) {
        (Some(lo), Some(hi)) if hi > lo => Some(if hi - lo >= 2 { (lo + 1).to_string() } else { format!("{lo}.5") }),
        _ => None,
    };
    for a in l {
        if let Req::Match { ask_id, bid_id, price, size } = &a.req {
            if let Some(b) = &between {
                v.push(Act::new(&a.sender, vec![], Req::Match { ask_id: ask_id.clone(), bid_id: bid_id.clone(), price: b.clone(), size: *size }));
            }
            for p in respell(price) {
                v.push(Act::new(&a.sender, vec![], Req::Match { ask_id: ask_id.clone(), bid_id: bid_id.clone(), price: p, size: *size }));
            }
        }
    }
    dedupe(v)
}

/// requests every ledger scenario also tries: escrowing requests with a coin of another
/// denomination attached next to the right one, and a configuration change that names no field
pub fn misc(cfg: &Cfg, l: &[Act]) -> Vec<Act> {
    let mut v = vec![];
    for a in l {
        if matches!(a.req, Req::CreateAsk { .. } | Req::CreateBid { .. } | Req::ApproveAsk { .. }) && !a.funds.is_empty() {
            let mut b = a.clone();
            let other = if a.funds[0].denom == "q1" { "base" } else { "q1" };
            b.funds.push(cosmwasm_std::coin(3, other));
            v.push(b);
            let mut c = a.clone();
            c.funds.insert(0, cosmwasm_std::coin(1, "aaa"));
            v.push(c);
        }
        // the id of a (possibly open) order written in upper case, from the same and from another account
        let respelt = match &a.req {
            Req::CreateAsk { id, base, quote, price, size } => Some(Req::CreateAsk { id: id.to_uppercase(), base: base.clone(), quote: quote.clone(), price: price.clone(), size: *size }),
            Req::CreateBid { id, base, fee, price, quote, quote_size, size } => {
                Some(Req::CreateBid { id: id.to_uppercase(), base: base.clone(), fee: fee.clone(), price: price.clone(), quote: quote.clone(), quote_size: *quote_size, size: *size })
            }
            _ => None,
        };
        // a price with one decimal more than written (beyond the precision when the written one uses it up)
        let finer = |price: &str| if price.contains('.') { format!("{price}5") } else { format!("{price}.5") };
        match &a.req {
            Req::CreateAsk { id, base, quote, price, size } => {
                let funds: Vec<(u128, &str)> = a.funds.iter().map(|c| (c.amount.u128(), c.denom.as_str())).collect();
                v.push(Act::new(&a.sender, funds, Req::CreateAsk { id: id.clone(), base: base.clone(), quote: quote.clone(), price: finer(price), size: *size }));
            }
            _ => {}
        }
        if let Some(req) = respelt {
            let funds: Vec<(u128, &str)> = a.funds.iter().map(|c| (c.amount.u128(), c.denom.as_str())).collect();
            if req != a.req {
                v.push(Act::new(&a.sender, funds.clone(), req.clone()));
                v.push(Act::new(cfg.roles.get("stranger"), funds, req));
            }
        }
    }
    v.push(Act::new(cfg.roles.get("exec"), vec![], Req::Modify(Modify::default())));
    v.push(Act::new(cfg.roles.get("stranger"), vec![], Req::Modify(Modify::default())));
    dedupe(v)
}

/// C03: the match request product
pub fn match_product(cfg: &Cfg, m: &Menu, thorough: bool) -> Vec<Act> {
    let r = &cfg.roles;
    let mut ask_ids: Vec<String> = ASK_IDS[..m.ask_slots].iter().map(|s| s.to_string()).collect();
    let mut bid_ids: Vec<String> = BID_IDS[..m.bid_slots].iter().map(|s| s.to_string()).collect();
    ask_ids.push(ID_UNUSED.into());
    bid_ids.push(ID_UNUSED.into());
    if m.ask_slots < 2 {
        ask_ids.push(ID_B2.into()); // an id that only ever exists on the other side
    }
    if m.bid_slots < 2 {
        bid_ids.push(ID_A2.into());
    }
    let mut prices: Vec<String> = m.prices.iter().map(|s| s.to_string()).collect();
    for p in &m.prices {
        for q in respell(p) {
            prices.push(q);
        }
    }
    for p in &m.prices {
        // between two ticks: one more decimal than written
        prices.push(if p.contains('.') { format!("{p}5") } else { format!("{p}.5") });
        prices.push(if p.contains('.') { format!("{p}04") } else { format!("{p}.004") });
    }
    prices.push("5".into());
    prices.push("0".into());
    prices.push("abc".into());
    prices.push("-2".into());
    let mut pset = BTreeSet::new();
    prices.retain(|p| pset.insert(p.clone()));
    let sizes = all_sizes(m, cfg.increment);
    let mut senders: Vec<&str> = vec![r.get("exec")];
    let others = ["exec2", "approver", "seller1", "buyer1", "stranger", "askfee"];
    let mut v = vec![];
    // full product for the executor
    for a in &ask_ids {
        for b in &bid_ids {
            for p in &prices {
                for s in &sizes {
                    v.push(Act::new(
                        r.get("exec"),
                        vec![],
                        Req::Match { ask_id: a.clone(), bid_id: b.clone(), price: p.clone(), size: *s },
                    ));
                }
            }
        }
    }
    // other senders: on the L-shaped requests (thorough: on the whole product)
    for o in others {
        if !senders.contains(&r.get(o)) {
            senders.push(r.get(o));
        }
    }
    // (other senders on the whole product was measured at 8.5e9 transitions / 49 min for the
    // thorough tier: the sender dimension is independent of the other conditions, so it is
    // crossed with the L-shaped requests only — plus, in the thorough tier, every size)
    let base: Vec<Act> = if thorough {
        v.iter()
            .filter(|a| matches!(&a.req, Req::Match{price, ask_id, bid_id, ..} if m.prices.contains(&price.as_str()) && ask_id != ID_UNUSED && bid_id != ID_UNUSED))
            .cloned()
            .collect()
    } else {
        v.iter()
            .filter(|a| matches!(&a.req, Req::Match{price, size, ask_id, bid_id} if m.prices.contains(&price.as_str()) && m.match_sizes.contains(size) && ask_id != ID_UNUSED && bid_id != ID_UNUSED))
            .cloned()
            .collect()
    };
    for s in &senders[1..] {
        for a in &base {
            v.push(a.with_sender(s));
        }
    }
    // funds attached, non-canonical ids
    for a in base.iter().take(if thorough { usize::MAX } else { 64 }) {
        v.push(a.with_funds(vec![(1, "q1")]));
        if let Req::Match { ask_id, bid_id, price, size } = &a.req {
            v.push(Act::new(
                &a.sender,
                vec![],
                Req::Match { ask_id: unhyphen(ask_id), bid_id: bid_id.clone(), price: price.clone(), size: *size },
            ));
            v.push(Act::new(
                &a.sender,
                vec![],
                Req::Match { ask_id: ask_id.clone(), bid_id: bid_id.to_uppercase(), price: price.clone(), size: *size },
            ));
        }
    }
    dedupe(v)
}

/// C04: reversal requests with every partial size, by the right sender, plus malformed variants
pub fn reversals(cfg: &Cfg, m: &Menu) -> Vec<Act> {
    let r = &cfg.roles;
    let exec = r.get("exec");
    let sizes = all_sizes(m, cfg.increment);
    let mut v = vec![];
    for slot in 0..m.ask_slots {
        let id = ASK_IDS[slot];
        let owner = r.get(if slot % 2 == 0 { "seller1" } else { "seller2" });
        v.push(Act::new(exec, vec![], Req::RejectAsk { id: id.into(), size: None }));
        for s in &sizes {
            v.push(Act::new(exec, vec![], Req::RejectAsk { id: id.into(), size: Some(*s) }));
        }
        v.push(Act::new(owner, vec![(1, "base")], Req::CancelAsk { id: id.into() }));
        v.push(Act::new(exec, vec![(1, "base")], Req::ExpireAsk { id: id.into() }));
        v.push(Act::new(owner, vec![], Req::CancelAsk { id: unhyphen(id) }));
        v.push(Act::new(exec, vec![], Req::ExpireAsk { id: id.to_uppercase() }));
        v.push(Act::new(exec, vec![], Req::RejectAsk { id: unhyphen(id), size: None }));
    }
    for slot in 0..m.bid_slots {
        let id = BID_IDS[slot];
        let owner = r.get(if slot % 2 == 0 { "buyer1" } else { "buyer2" });
        v.push(Act::new(exec, vec![], Req::RejectBid { id: id.into(), size: None }));
        for s in &sizes {
            v.push(Act::new(exec, vec![], Req::RejectBid { id: id.into(), size: Some(*s) }));
        }
        v.push(Act::new(owner, vec![(1, "q1")], Req::CancelBid { id: id.into() }));
        v.push(Act::new(exec, vec![(1, "q1")], Req::ExpireBid { id: id.into() }));
        v.push(Act::new(owner, vec![], Req::CancelBid { id: unhyphen(id) }));
        v.push(Act::new(exec, vec![], Req::ExpireBid { id: id.to_uppercase() }));
        v.push(Act::new(exec, vec![], Req::RejectBid { id: unhyphen(id), size: None }));
    }
    for id in [ID_UNUSED, "nope", ""] {
        v.push(Act::new(exec, vec![], Req::ExpireAsk { id: id.into() }));
        v.push(Act::new(exec, vec![], Req::ExpireBid { id: id.into() }));
        v.push(Act::new(exec, vec![], Req::RejectAsk { id: id.into(), size: None }));
        v.push(Act::new(exec, vec![], Req::RejectBid { id: id.into(), size: None }));
        v.push(Act::new(r.get("seller1"), vec![], Req::CancelAsk { id: id.into() }));
        v.push(Act::new(r.get("buyer1"), vec![], Req::CancelBid { id: id.into() }));
    }
    dedupe(v)
}

/// C08: approve variants
pub fn approvals(cfg: &Cfg, m: &Menu) -> Vec<Act> {
    let r = &cfg.roles;
    let sizes = all_sizes(m, cfg.increment);
    let mut v = vec![];
    let upper = r.get("approver").to_uppercase();
    let senders = [r.get("approver"), r.get("approver2"), r.get("exec"), r.get("seller1"), r.get("stranger"), upper.as_str()];
    let base_restricted = cfg.restricted(&cfg.base);
    for slot in 0..m.ask_slots {
        let id = ASK_IDS[slot];
        for s in &sizes {
            for snd in senders {
                // well-funded for the claimed size
                let funds = if base_restricted { vec![] } else { vec![(*s, cfg.base.as_str())] };
                v.push(Act::new(snd, funds, Req::ApproveAsk { id: id.into(), base: cfg.base.clone(), size: *s }));
            }
            let ap = r.get("approver");
            // funds off by one / missing / extra / wrong denomination / attached on restricted
            for f in [
                vec![(*s + 1, cfg.base.as_str())],
                vec![(s.saturating_sub(1).max(1), cfg.base.as_str())],
                vec![],
                vec![(*s, "conv")],
                vec![(1, "aaa"), (*s, cfg.base.as_str())],
                vec![(*s, cfg.base.as_str())],
            ] {
                v.push(Act::new(ap, f, Req::ApproveAsk { id: id.into(), base: cfg.base.clone(), size: *s }));
            }
            // base string other than the contract base
            v.push(Act::new(ap, vec![(*s, "conv")], Req::ApproveAsk { id: id.into(), base: "conv".into(), size: *s }));
            v.push(Act::new(ap, vec![(*s, "q1")], Req::ApproveAsk { id: id.into(), base: "q1".into(), size: *s }));
        }
        let ap = r.get("approver");
        let s = m.sizes[0];
        let funds = if base_restricted { vec![] } else { vec![(s, cfg.base.as_str())] };
        v.push(Act::new(ap, funds.clone(), Req::ApproveAsk { id: unhyphen(id), base: cfg.base.clone(), size: s }));
        v.push(Act::new(ap, funds.clone(), Req::ApproveAsk { id: ID_UNUSED.into(), base: cfg.base.clone(), size: s }));
        v.push(Act::new(ap, funds, Req::ApproveAsk { id: ID_B2.into(), base: cfg.base.clone(), size: s }));
    }
    dedupe(v)
}

// ---------------------------------------------------------------------------------------------
// C07: create drafts with semantic deviations

#[derive(Clone, Copy, Debug, PartialEq, Eq)]
pub enum FundsMode {
    Exact,
    Plus1,
    Minus1,
    Absent,
    ExtraCoin,
    WrongDenom,
    /// attach the exact coin even though the denomination is restricted
    ForceAttach,
    TwoCoinsSplit,
}

#[derive(Clone, Copy, Debug, PartialEq, Eq)]
pub enum FeeMode {
    Exact,
    Absent,
    Plus1,
    Minus1,
    WrongDenom,
    ExplicitValue, // Some(fee) even when the fee due is 0
    /// the fee coin names another denomination the contract trades as quote
    OtherQuote,
}

#[derive(Clone, Copy, Debug, PartialEq, Eq)]
pub enum QsMode {
    Exact,
    Plus1,
    Minus1,
    /// the largest value a 96-bit decimal holds (what a saturating product would give)
    DecimalMax,
}

#[derive(Clone, Debug)]
pub struct AskDraft {
    pub sender: String,
    pub id: String,
    pub base: String,
    pub quote: String,
    pub price: String,
    pub size: u128,
    pub funds: FundsMode,
}

#[derive(Clone, Debug)]
pub struct BidDraft {
    pub sender: String,
    pub id: String,
    pub base: String,
    pub quote: String,
    pub price: String,
    pub size: u128,
    pub qs: QsMode,
    pub fee: FeeMode,
    pub funds: FundsMode,
}

fn funds_of(cfg: &Cfg, mode: FundsMode, amount: u128, denom: &str) -> Vec<(u128, String)> {
    let d = denom.to_string();
    let restricted = cfg.restricted(denom);
    match mode {
        FundsMode::Exact => {
            if restricted {
                vec![]
            } else {
                vec![(amount, d)]
            }
        }
        FundsMode::Plus1 => vec![(amount + 1, d)],
        FundsMode::Minus1 => {
            if amount > 1 {
                vec![(amount - 1, d)]
            } else {
                vec![]
            }
        }
        FundsMode::Absent => vec![],
        FundsMode::ExtraCoin => vec![(1, "aaa".into()), (amount, d)],
        FundsMode::WrongDenom => vec![(amount, "zzz".into())],
        FundsMode::ForceAttach => vec![(amount, d)],
        FundsMode::TwoCoinsSplit => {
            if amount > 1 {
                vec![(1, d.clone()), (amount - 1, d)]
            } else {
                vec![(amount, d.clone()), (amount, d)]
            }
        }
    }
}

impl AskDraft {
    pub fn build(&self, cfg: &Cfg) -> Act {
        let f = funds_of(cfg, self.funds, self.size, &self.base);
        Act::new(
            &self.sender,
            f.iter().map(|(a, d)| (*a, d.as_str())).collect(),
            Req::CreateAsk {
                id: self.id.clone(),
                base: self.base.clone(),
                quote: self.quote.clone(),
                price: self.price.clone(),
                size: self.size,
            },
        )
    }
}

impl BidDraft {
    pub fn build(&self, cfg: &Cfg) -> Act {
        let exact: Option<u128> = parse_dec(&self.price)
            .and_then(|p| p.mul(Rat::int(self.size)?))
            .and_then(|t| if t.n >= 0 { Some((t.n / t.d) as u128) } else { None });
        let total = exact.unwrap_or(4);
        let qs = match self.qs {
            QsMode::Exact => total,
            QsMode::Plus1 => total + 1,
            QsMode::Minus1 => total.saturating_sub(1),
            QsMode::DecimalMax => 79_228_162_514_264_337_593_543_950_335,
        };
        // (a request built around a saturated total states the fee of that amount)
        let due = fee_due(cfg.bid_fee.as_ref().map(|f| f.0.as_str()), if matches!(self.qs, QsMode::DecimalMax) { qs } else { total });
        let fee: Option<(String, u128)> = match self.fee {
            FeeMode::Exact => {
                if due > 0 {
                    Some((self.quote.clone(), due))
                } else {
                    None
                }
            }
            FeeMode::Absent => None,
            FeeMode::Plus1 => Some((self.quote.clone(), due + 1)),
            FeeMode::Minus1 => {
                if due > 1 {
                    Some((self.quote.clone(), due - 1))
                } else {
                    None
                }
            }
            FeeMode::WrongDenom => Some(("zzz".into(), due.max(1))),
            FeeMode::ExplicitValue => Some((self.quote.clone(), due)),
            FeeMode::OtherQuote => match cfg.quotes.iter().find(|q| **q != self.quote) {
                Some(q) => Some((q.clone(), due.max(1))),
                None => Some(("zzz".into(), due.max(1))),
            },
        };
        let need = qs + fee.as_ref().map_or(0, |f| f.1);
        let f = funds_of(cfg, self.funds, need, &self.quote);
        Act::new(
            &self.sender,
            f.iter().map(|(a, d)| (*a, d.as_str())).collect(),
            Req::CreateBid {
                id: self.id.clone(),
                base: self.base.clone(),
                fee,
                price: self.price.clone(),
                quote: self.quote.clone(),
                quote_size: qs,
                size: self.size,
            },
        )
    }
}

fn bad_prices(cfg: &Cfg, good: &str) -> Vec<String> {
    let p = cfg.precision as usize;
    // one decimal more than the precision allows
    let too_fine = if good.contains('.') {
        let (a, b) = good.split_once('.').unwrap();
        let mut b = b.to_string();
        while b.len() < p {
            b.push('0');
        }
        format!("{a}.{b}5")
    } else {
        format!("{good}.{}5", "0".repeat(p))
    };
    let mut v = vec![too_fine, "0".into(), "0.0".into(), format!("-{good}"), "abc".into(), "".into()];
    // valid respellings
    v.extend(respell(good).into_iter().filter(|s| !s.starts_with('0') || s.starts_with("0.")));
    v
}

type AskDev = Box<dyn Fn(&mut AskDraft) + Send + Sync>;
type BidDev = Box<dyn Fn(&mut BidDraft) + Send + Sync>;

fn ask_devs(cfg: &Cfg, d: &AskDraft, inc: u128) -> Vec<(u8, AskDev)> {
    let mut v: Vec<(u8, AskDev)> = vec![];
    for f in [
        FundsMode::Plus1,
        FundsMode::Minus1,
        FundsMode::Absent,
        FundsMode::ExtraCoin,
        FundsMode::WrongDenom,
        FundsMode::ForceAttach,
        FundsMode::TwoCoinsSplit,
    ] {
        v.push((0, Box::new(move |x: &mut AskDraft| x.funds = f)));
    }
    for p in bad_prices(cfg, &d.price) {
        v.push((1, Box::new(move |x: &mut AskDraft| x.price = p.clone())));
    }
    for s in [d.size + 1, d.size.saturating_sub(1), 0, d.size + inc, 3 * inc] {
        v.push((2, Box::new(move |x: &mut AskDraft| x.size = s)));
    }
    for b in ["zzz", "", "q1", if d.base == cfg.base { "conv" } else { "base" }] {
        let b = b.to_string();
        v.push((3, Box::new(move |x: &mut AskDraft| x.base = b.clone())));
    }
    for q in ["qx", "", "base"] {
        let q = q.to_string();
        v.push((4, Box::new(move |x: &mut AskDraft| x.quote = q.clone())));
    }
    let idv = vec![unhyphen(&d.id), d.id.to_uppercase(), "nope".to_string(), "".to_string(), ID_B2.to_string(), ID_UNUSED.to_string(), format!("{{{}}}", d.id)];
    for i in idv {
        v.push((5, Box::new(move |x: &mut AskDraft| x.id = i.clone())));
    }
    for s in ["stranger", "noattr", "someattr", "dupattr"] {
        let s = cfg.roles.0.get(s).cloned().unwrap_or(s.to_string());
        v.push((6, Box::new(move |x: &mut AskDraft| x.sender = s.clone())));
    }
    v
}

fn bid_devs(cfg: &Cfg, d: &BidDraft, inc: u128) -> Vec<(u8, BidDev)> {
    let mut v: Vec<(u8, BidDev)> = vec![];
    for f in [
        FundsMode::Plus1,
        FundsMode::Minus1,
        FundsMode::Absent,
        FundsMode::ExtraCoin,
        FundsMode::WrongDenom,
        FundsMode::ForceAttach,
        FundsMode::TwoCoinsSplit,
    ] {
        v.push((0, Box::new(move |x: &mut BidDraft| x.funds = f)));
    }
    for p in bad_prices(cfg, &d.price) {
        v.push((1, Box::new(move |x: &mut BidDraft| x.price = p.clone())));
    }
    for s in [d.size + 1, d.size.saturating_sub(1), 0, d.size + inc, 3 * inc] {
        v.push((2, Box::new(move |x: &mut BidDraft| x.size = s)));
    }
    for b in ["zzz", "", "conv"] {
        let b = b.to_string();
        v.push((3, Box::new(move |x: &mut BidDraft| x.base = b.clone())));
    }
    for q in ["qx", "", "base"] {
        let q = q.to_string();
        v.push((4, Box::new(move |x: &mut BidDraft| x.quote = q.clone())));
    }
    let idv = vec![unhyphen(&d.id), d.id.to_uppercase(), "nope".to_string(), "".to_string(), ID_A2.to_string(), ID_UNUSED.to_string(), format!("{{{}}}", d.id)];
    for i in idv {
        v.push((5, Box::new(move |x: &mut BidDraft| x.id = i.clone())));
    }
    for s in ["stranger", "noattr", "someattr", "dupattr"] {
        let s = cfg.roles.0.get(s).cloned().unwrap_or(s.to_string());
        v.push((6, Box::new(move |x: &mut BidDraft| x.sender = s.clone())));
    }
    for q in [QsMode::Plus1, QsMode::Minus1, QsMode::DecimalMax] {
        v.push((7, Box::new(move |x: &mut BidDraft| x.qs = q)));
    }
    for f in [FeeMode::Absent, FeeMode::Plus1, FeeMode::Minus1, FeeMode::WrongDenom, FeeMode::ExplicitValue, FeeMode::OtherQuote] {
        v.push((8, Box::new(move |x: &mut BidDraft| x.fee = f)));
    }
    v
}

/// C07: every create request within `k` deviations of a valid baseline
pub fn creates(cfg: &Cfg, m: &Menu, k: usize) -> Vec<Act> {
    let r = &cfg.roles;
    let inc = cfg.increment;
    let mut v = vec![];
    for slot in 0..m.ask_slots {
        for base in &m.ask_bases {
            for p in &m.prices {
                // one baseline size per (slot, base, price) keeps the product in check
                let s = m.sizes[0];
                let d0 = AskDraft {
                    sender: r.get(if slot % 2 == 0 { "seller1" } else { "seller2" }).to_string(),
                    id: ASK_IDS[slot].into(),
                    base: base.to_string(),
                    quote: cfg.quotes[0].clone(),
                    price: p.to_string(),
                    size: s,
                    funds: FundsMode::Exact,
                };
                v.push(d0.build(cfg));
                let devs = ask_devs(cfg, &d0, inc);
                for (_, f) in &devs {
                    let mut d = d0.clone();
                    f(&mut d);
                    v.push(d.build(cfg));
                }
                if k >= 2 {
                    for (g1, f1) in &devs {
                        for (g2, f2) in &devs {
                            if g1 < g2 {
                                let mut d = d0.clone();
                                f1(&mut d);
                                f2(&mut d);
                                v.push(d.build(cfg));
                            }
                        }
                    }
                }
            }
        }
    }
    for slot in 0..m.bid_slots {
        for p in &m.prices {
            let s = m.sizes[0];
            let d0 = BidDraft {
                sender: r.get(if slot % 2 == 0 { "buyer1" } else { "buyer2" }).to_string(),
                id: BID_IDS[slot].into(),
                base: cfg.base.clone(),
                quote: cfg.quotes[0].clone(),
                price: p.to_string(),
                size: s,
                qs: QsMode::Exact,
                fee: FeeMode::Exact,
                funds: FundsMode::Exact,
            };
            v.push(d0.build(cfg));
            let devs = bid_devs(cfg, &d0, inc);
            for (_, f) in &devs {
                let mut d = d0.clone();
                f(&mut d);
                v.push(d.build(cfg));
            }
            if k >= 2 {
                for (g1, f1) in &devs {
                    for (g2, f2) in &devs {
                        if g1 < g2 {
                            let mut d = d0.clone();
                            f1(&mut d);
                            f2(&mut d);
                            v.push(d.build(cfg));
                        }
                    }
                }
            }
        }
    }
    dedupe(v)
}

/// C09: create-bid requests whose fee field deviates from the fee due (absent, off by one, other
/// denomination, explicit zero), for every price and size of the menu
pub fn fee_creates(cfg: &Cfg, m: &Menu) -> Vec<Act> {
    let r = &cfg.roles;
    let mut v = vec![];
    for slot in 0..m.bid_slots {
        for p in &m.prices {
            for s in &m.sizes {
                for fee in [FeeMode::Exact, FeeMode::Absent, FeeMode::Plus1, FeeMode::Minus1, FeeMode::WrongDenom, FeeMode::ExplicitValue, FeeMode::OtherQuote] {
                  for quote in if m.quotes.is_empty() { vec![cfg.quotes[0].clone()] } else { m.quotes.iter().map(|q| q.to_string()).collect::<Vec<_>>() } {
                    let d = BidDraft {
                        sender: r.get(if slot % 2 == 0 { "buyer1" } else { "buyer2" }).to_string(),
                        id: BID_IDS[slot].into(),
                        base: cfg.base.clone(),
                        quote: quote.clone(),
                        price: p.to_string(),
                        size: *s,
                        qs: QsMode::Exact,
                        fee,
                        funds: FundsMode::Exact,
                    };
                    v.push(d.build(cfg));
                  }
                }
            }
        }
    }
    dedupe(v)
}

// ---------------------------------------------------------------------------------------------
// C12: configuration-change alphabet

pub fn modify_field_alts(cfg: &Cfg) -> Vec<Vec<(u8, Modify)>> {
    let r = &cfg.roles;
    let ap = r.get("approver").to_string();
    let ap2 = r.get("approver2").to_string();
    let ex = r.get("exec").to_string();
    let ex2 = r.get("exec2").to_string();
    let list_alts = |cur: Vec<String>, other: String| -> Vec<Vec<String>> {
        let mut ext = cur.clone();
        ext.push(other.clone());
        let mut rev = cur.clone();
        rev.reverse();
        // the last one drops a current member while repeating a kept one (same length as before)
        vec![cur.clone(), ext, vec![cur[0].clone()], rev, vec![], vec![other.clone()], vec!["X".into()], vec![cur[0].clone(), "BAD".into()], vec![cur[0].clone(), other, cur[0].clone()], vec![cur[0].clone(), cur[0].clone()], vec![cur[1].clone()], vec!["".into()], vec!["  ".into(), "".into()]]
    };
    let mut groups: Vec<Vec<(u8, Modify)>> = vec![];
    groups.push(
        list_alts(vec![ap.clone(), ap2.clone()], "stranger".into())
            .into_iter()
            .map(|l| (0u8, Modify { approvers: Some(l), ..Default::default() }))
            .collect(),
    );
    groups.push(
        list_alts(vec![ex.clone(), ex2.clone()], "stranger".into())
            .into_iter()
            .map(|l| (1u8, Modify { executors: Some(l), ..Default::default() }))
            .collect(),
    );
    let fee_alts = |cur: Option<(String, String)>, acct2: &str| -> Vec<(Option<String>, Option<String>)> {
        let (rate, acct) = cur.clone().unwrap_or(("0.25".into(), acct2.to_string()));
        let mut v = vec![
            (Some(rate.clone()), Some(acct.clone())),
            (Some(format!("{rate}0")), Some(acct.clone())),
            (Some(rate.clone()), Some("otheracct".to_string())),
            (Some("0.5".to_string()), Some(acct.clone())),
            (Some(format!("{rate}4")), Some(acct.clone())),
            (Some(format!("{rate}04")), Some("otheracct".to_string())),
            (Some("0".to_string()), Some(acct.clone())),
            (Some("".to_string()), Some("".to_string())),
            (Some(rate.clone()), None),
            (None, Some(acct.clone())),
            (Some("abc".to_string()), Some(acct.clone())),
            // the same rate in spellings a decimal would not print itself in, and with more places than 28
            (Some(format!("+{rate}")), Some(acct.clone())),
            (Some(rate.trim_start_matches('0').to_string()), Some(acct.clone())),
            (Some(format!("0{rate}")), Some("otheracct".to_string())),
            (Some(format!("{rate}{}", "0".repeat(30))), Some(acct.clone())),
            (Some(rate.clone()), Some("X".to_string())),
            (Some("".to_string()), Some(acct.clone())),
            (Some(rate.clone()), Some("".to_string())),
        ];
        v.dedup();
        v
    };
    groups.push(
        fee_alts(cfg.ask_fee.clone(), r.get("askfee"))
            .into_iter()
            .map(|(ra, ac)| (2u8, Modify { ask_fee_rate: ra, ask_fee_account: ac, ..Default::default() }))
            .collect(),
    );
    groups.push(
        fee_alts(cfg.bid_fee.clone(), r.get("bidfee"))
            .into_iter()
            .map(|(ra, ac)| (3u8, Modify { bid_fee_rate: ra, bid_fee_account: ac, ..Default::default() }))
            .collect(),
    );
    groups.push(
        vec![vec![], vec!["kyc".to_string()]]
            .into_iter()
            .map(|l| (4u8, Modify { ask_required_attributes: Some(l), ..Default::default() }))
            .collect(),
    );
    groups.push(
        vec![vec![], vec!["kyc".to_string()]]
            .into_iter()
            .map(|l| (5u8, Modify { bid_required_attributes: Some(l), ..Default::default() }))
            .collect(),
    );
    groups
}

pub fn merge_modify(a: &Modify, b: &Modify) -> Modify {
    Modify {
        approvers: b.approvers.clone().or(a.approvers.clone()),
        executors: b.executors.clone().or(a.executors.clone()),
        ask_fee_rate: b.ask_fee_rate.clone().or(a.ask_fee_rate.clone()),
        ask_fee_account: b.ask_fee_account.clone().or(a.ask_fee_account.clone()),
        bid_fee_rate: b.bid_fee_rate.clone().or(a.bid_fee_rate.clone()),
        bid_fee_account: b.bid_fee_account.clone().or(a.bid_fee_account.clone()),
        ask_required_attributes: b.ask_required_attributes.clone().or(a.ask_required_attributes.clone()),
        bid_required_attributes: b.bid_required_attributes.clone().or(a.bid_required_attributes.clone()),
    }
}

/// every modify request deviating from the all-absent request in at most `k` field groups
pub fn modifies(cfg: &Cfg, k: usize, senders: &[&str]) -> Vec<Act> {
    let groups = modify_field_alts(cfg);
    let mut reqs: Vec<Modify> = vec![Modify::default()];
    let n = groups.len();
    fn rec(groups: &Vec<Vec<(u8, Modify)>>, start: usize, left: usize, cur: Modify, out: &mut Vec<Modify>) {
        if left == 0 {
            return;
        }
        for g in start..groups.len() {
            for (_, alt) in &groups[g] {
                let m = merge_modify(&cur, alt);
                out.push(m.clone());
                rec(groups, g + 1, left - 1, m, out);
            }
        }
    }
    rec(&groups, 0, k.min(n), Modify::default(), &mut reqs);
    let mut v = vec![];
    for m in reqs {
        for s in senders {
            v.push(Act::new(s, vec![], Req::Modify(m.clone())));
        }
    }
    dedupe(v)
}
