//! Running a property's plan: exploration, known-findings classification, replay files,
//! evidence (DESIGN §3.4, §3.5).

use crate::catalogue::{plan, HookKind, Tier};
use crate::chain::{step, Store};
use crate::engine::{explore, initial_store, Caps, Explored, StateHook, VRec};
use crate::hooks::{ExitHook, QueryHook};
use crate::oracles::{on_trans, Sink, StateCtx, TransCtx};
use crate::scenario::{Act, Cfg, Scenario};
use serde_json::{json, Value};
use std::collections::BTreeMap;
use std::time::Instant;

pub const VERIF: &str = "/verif";

/// where evidence and replay files go: /verif, unless a development run redirects them (ATSMC_OUT)
pub fn out_root() -> String {
    std::env::var("ATSMC_OUT").unwrap_or_else(|_| VERIF.to_string())
}

pub fn hooks_of(kinds: &[HookKind]) -> Vec<Box<dyn StateHook>> {
    kinds
        .iter()
        .map(|k| -> Box<dyn StateHook> {
            match k {
                HookKind::Exit => Box::new(ExitHook),
                HookKind::Query => Box::new(QueryHook),
            }
        })
        .collect()
}

// ---------------------------------------------------------------------------------------------
// known findings

#[derive(Clone, Debug)]
pub struct Finding {
    pub property: String,
    pub status: String,
    pub signature: String,
    pub description: String,
}

pub fn load_findings() -> Result<Vec<Finding>, String> {
    let p = format!("{VERIF}/known_findings.json");
    let s = std::fs::read_to_string(&p).map_err(|e| format!("{p}: {e}"))?;
    let v: Value = serde_json::from_str(&s).map_err(|e| format!("{p}: {e}"))?;
    let mut out = vec![];
    for f in v.get("findings").and_then(|x| x.as_array()).cloned().unwrap_or_default() {
        let g = |k: &str| f.get(k).and_then(|x| x.as_str()).unwrap_or("").to_string();
        out.push(Finding { property: g("property"), status: g("status"), signature: g("signature"), description: g("description") });
    }
    Ok(out)
}

/// only `known` entries suppress; `fixed` entries suppress nothing
pub fn is_known(fs: &[Finding], prop: &str, sig: &str) -> Option<Finding> {
    fs.iter()
        .find(|f| f.status == "known" && f.property == prop && (f.signature == sig || (f.signature.ends_with('*') && sig.starts_with(f.signature.trim_end_matches('*')))))
        .cloned()
}

// ---------------------------------------------------------------------------------------------
// replay files

pub fn path_ops(scen: &Scenario, ex: &Explored, state: usize) -> Vec<Value> {
    ex.path(state)
        .into_iter()
        .map(|a| {
            let a = a as usize;
            if a < scen.l.len() {
                scen.l[a].to_replay()
            } else {
                scen.p[a - scen.l.len()].to_replay()
            }
        })
        .collect()
}

pub fn write_replay(prop: &str, n: usize, scen_name: &str, tier: Tier, setup: Value, hooks: &[HookKind], path: Vec<Value>, v: &VRec) -> Result<String, String> {
    std::fs::create_dir_all(format!("{}/replays", out_root())).map_err(|e| e.to_string())?;
    let file = format!("{}/replays/{prop}-{n}.json", out_root());
    let doc = json!({
        "property": prop,
        "signature": v.sig,
        "scenario": scen_name,
        "tier": format!("{tier:?}").to_lowercase(),
        "occurrences": v.count,
        "detail": v.detail,
        "setup": setup,
        "hooks": hooks.iter().map(|h| format!("{h:?}")).collect::<Vec<_>>(),
        "path": path,
        "last": v.last,
    });
    std::fs::write(&file, serde_json::to_string_pretty(&doc).unwrap()).map_err(|e| e.to_string())?;
    Ok(file)
}

pub struct ReplayResult {
    pub reproduced: bool,
    pub log: Vec<String>,
    pub seen: Vec<(String, String)>,
}

/// Re-execute a replay file on the real code with no explorer involved.
pub fn replay_book(doc: &Value) -> Result<ReplayResult, String> {
    let setup = doc.get("setup").ok_or("no setup")?;
    let (cfg, seed) = Cfg::from_setup(setup).ok_or("setup not understood")?;
    let pre_migrate = setup.get("pre_migrate").and_then(|p| Some((p.get("stored_version")?.as_str()?.to_string(), p.get("migrate")?.clone())));
    let scen = Scenario { name: "replay".into(), cfg, l: vec![], p: vec![], seed, menu: crate::catalogue::menu_p1(0, 0), pre_migrate };
    let want = doc.get("signature").and_then(|s| s.as_str()).unwrap_or("").to_string();
    let mut store: Store = initial_store(&scen)?;
    let mut log = vec![];
    let mut seen: Vec<(String, String)> = vec![];
    let path: Vec<Value> = doc.get("path").and_then(|p| p.as_array()).cloned().unwrap_or_default();
    let last: Vec<Value> = doc.get("last").and_then(|p| p.as_array()).cloned().unwrap_or_default();
    let hooks: Vec<HookKind> = doc
        .get("hooks")
        .and_then(|h| h.as_array())
        .map(|a| {
            a.iter()
                .filter_map(|x| match x.as_str() {
                    Some("Exit") => Some(HookKind::Exit),
                    Some("Query") => Some(HookKind::Query),
                    _ => None,
                })
                .collect()
        })
        .unwrap_or_default();
    let mut run_exec = |store: &mut Store, v: &Value, log: &mut Vec<String>, seen: &mut Vec<(String, String)>, advance: bool| -> Result<(), String> {
        let act = Act::from_replay(v).ok_or(format!("step not understood: {v}"))?;
        let st = StateCtx::new(&scen.cfg, store);
        let out = crate::scenario::step_act(store, &scen.cfg.chain, &act);
        log.push(format!("  {} -> {}", act.describe(), out.short()));
        if let Some(a) = out.accepted() {
            for f in &a.flows {
                log.push(format!("      {:?} {} -> {} {}{}", f.kind, f.from, f.to, f.amount, f.denom));
            }
            log.push(format!("      attrs {:?}", a.attrs.iter().map(|x| format!("{}={}", x.key, x.value)).collect::<Vec<_>>()));
        }
        let tc = TransCtx::new(&st, &act, &out);
        let mut sink = Sink::default();
        on_trans(&tc, &mut sink);
        for x in sink.viols {
            log.push(format!("      !! {} {}: {}", x.prop, x.sig, x.detail));
            seen.push((x.prop.to_string(), x.sig));
        }
        if advance {
            if let Some(a) = out.accepted() {
                *store = a.store.clone();
            }
        }
        Ok(())
    };
    {
        let st = StateCtx::new(&scen.cfg, &store);
        let mut sink = Sink::default();
        crate::oracles::on_initial(&st, &mut sink);
        if scen.pre_migrate.is_some() {
            crate::oracles::check_carried_over(&scen.seed, &st, &mut sink);
        }
        for x in sink.viols {
            log.push(format!("  initial state !! {} {}: {}", x.prop, x.sig, x.detail));
            seen.push((x.prop.to_string(), x.sig));
        }
    }
    log.push("path:".into());
    for v in &path {
        run_exec(&mut store, v, &mut log, &mut seen, true)?;
    }
    // per-state hooks on the state reached by the path
    if !hooks.is_empty() {
        let st = StateCtx::new(&scen.cfg, &store);
        let mut sink = Sink::default();
        for h in hooks_of(&hooks) {
            h.on_state(&scen, &st, &mut sink);
        }
        for x in sink.viols {
            log.push(format!("  hook !! {} {}: {}", x.prop, x.sig, x.detail));
            seen.push((x.prop.to_string(), x.sig));
        }
    }
    log.push("last:".into());
    for v in &last {
        if v.get("op").and_then(|o| o.as_str()) == Some("execute") {
            run_exec(&mut store, v, &mut log, &mut seen, true)?;
        } else {
            log.push(format!("  {v}"));
        }
    }
    let reproduced = seen.iter().any(|(_, s)| *s == want);
    Ok(ReplayResult { reproduced, log, seen })
}

// ---------------------------------------------------------------------------------------------
// running a book-property plan

pub struct ScenReport {
    pub name: String,
    pub stats: crate::engine::Stats,
    pub l: usize,
    pub p: usize,
}

pub struct RunReport {
    pub prop: String,
    pub tier: Tier,
    pub scen: Vec<ScenReport>,
    pub cov: BTreeMap<String, u64>,
    pub unlisted: Vec<(String, String)>, // (signature, replay path)
    pub known: Vec<(String, String)>,
    pub other_props: BTreeMap<String, u64>,
    pub samples: Vec<Value>,
    pub wall_s: f64,
    pub machinery_error: Option<String>,
    pub rerun_checked: usize,
    pub skipped: Vec<String>,
}

fn sample_of(scen: &Scenario, ex: &Explored) -> Value {
    // the path to the deepest state, written out with outcomes of the last state's book
    let deepest = (0..ex.states.len()).max_by_key(|i| ex.depth_of[*i]).unwrap_or(0);
    let ops = path_ops(scen, ex, deepest);
    let book = crate::refmodel::decode_book(&ex.states[deepest]);
    json!({
        "scenario": scen.name,
        "depth": ex.depth_of[deepest],
        "requests": ops.iter().map(|o| format!("{} {} {}", o["sender"].as_str().unwrap_or(""), o["funds"], o["msg"])).collect::<Vec<_>>(),
        "book_reached": {
            "asks": book.asks.values().map(|a| format!("{a:?}")).collect::<Vec<_>>(),
            "bids": book.bids.values().map(|a| format!("{a:?}")).collect::<Vec<_>>(),
        }
    })
}

pub fn run_plan(prop: &str, tier: Tier) -> RunReport {
    run_given(prop, tier, plan(prop, tier), 0)
}

pub fn run_given(prop: &str, tier: Tier, pl: crate::catalogue::Plan, replay_offset: usize) -> RunReport {
    let t0 = Instant::now();
    let hooks_b = hooks_of(&pl.hooks);
    let hooks: Vec<&dyn StateHook> = hooks_b.iter().map(|b| b.as_ref()).collect();
    let mut rep = RunReport {
        prop: prop.to_string(),
        tier,
        scen: vec![],
        cov: BTreeMap::new(),
        unlisted: vec![],
        known: vec![],
        other_props: BTreeMap::new(),
        samples: vec![],
        wall_s: 0.0,
        machinery_error: None,
        rerun_checked: 0,
        skipped: vec![],
    };
    let findings = match load_findings() {
        Ok(f) => f,
        Err(e) => {
            rep.machinery_error = Some(e);
            return rep;
        }
    };
    let caps = Caps { wall_s: if tier == Tier::Quick { 120.0 } else { 1500.0 }, ..Caps::default() };
    let mut nrep = replay_offset;
    // development aid only (never set by ./check): restrict a plan to the scenarios whose name contains a string
    let only = std::env::var("ATSMC_ONLY").ok();
    for scen in &pl.scenarios {
        if only.as_deref().map_or(false, |o| !scen.name.contains(o)) {
            continue;
        }
        let ex = match explore(scen, &hooks, &caps) {
            Ok(e) => e,
            Err(e) if e.starts_with("SKIP:") => {
                println!("WARNING scenario skipped: {e}");
                rep.skipped.push(e);
                continue;
            }
            Err(e) => {
                rep.machinery_error = Some(e);
                return rep;
            }
        };
        eprintln!(
            "  [{}] {}: states {} L {} P {} extra {} accepted {} refused {} aborted {} depth {} exhaustive {} {:.1}s{}",
            prop, scen.name, ex.stats.states, ex.stats.l_transitions, ex.stats.p_transitions, ex.stats.extra_execs, ex.stats.accepted, ex.stats.refused, ex.stats.aborted, ex.stats.depth, ex.stats.exhaustive, ex.stats.wall_s,
            ex.stats.cap.as_ref().map(|c| format!(" CAP: {c}")).unwrap_or_default()
        );
        // determinism: thorough tier re-runs cheap explorations and compares digests
        // (every cheap scenario outside the value sweep, and the first 64 of the sweep's several thousand)
        if tier == Tier::Thorough && ex.stats.wall_s < 20.0 && (!scen.name.starts_with("sweep/") || rep.rerun_checked < 64) {
            match explore(scen, &hooks, &caps) {
                Ok(e2) => {
                    if e2.stats.digest != ex.stats.digest || e2.stats.states != ex.stats.states || e2.stats.accepted != ex.stats.accepted {
                        rep.machinery_error = Some(format!("scenario {} is not reproducible: digests {} vs {}", scen.name, ex.stats.digest, e2.stats.digest));
                        return rep;
                    }
                    rep.rerun_checked += 1;
                }
                Err(e) => {
                    rep.machinery_error = Some(e);
                    return rep;
                }
            }
        }
        for (k, v) in &ex.cov {
            *rep.cov.entry(k.clone()).or_insert(0) += v;
        }
        if rep.samples.len() < 3 {
            rep.samples.push(sample_of(scen, &ex));
        }
        for v in ex.viols.values() {
            if v.prop != prop {
                *rep.other_props.entry(format!("{} {}", v.prop, v.sig)).or_insert(0) += v.count;
                continue;
            }
            if let Some(f) = is_known(&findings, prop, &v.sig) {
                if !rep.known.iter().any(|(s, _)| *s == v.sig) {
                    rep.known.push((v.sig.clone(), f.description.clone()));
                }
                continue;
            }
            if rep.unlisted.iter().any(|(s, _)| *s == v.sig) {
                continue;
            }
            nrep += 1;
            let setup = scen.cfg.setup_value_pm(&scen.seed, &scen.pre_migrate);
            let file = match write_replay(prop, nrep, &scen.name, tier, setup, &pl.hooks, path_ops(scen, &ex, v.first_state), v) {
                Ok(f) => f,
                Err(e) => {
                    rep.machinery_error = Some(e);
                    return rep;
                }
            };
            // replay twice before believing it
            let doc: Value = serde_json::from_str(&std::fs::read_to_string(&file).unwrap()).unwrap();
            let r1 = replay_book(&doc);
            let r2 = replay_book(&doc);
            match (r1, r2) {
                (Ok(a), Ok(b)) if a.reproduced && b.reproduced && a.seen == b.seen => {}
                (Ok(a), Ok(b)) => {
                    rep.machinery_error = Some(format!("violation {} does not replay deterministically from {} (reproduced {} / {})", v.sig, file, a.reproduced, b.reproduced));
                    return rep;
                }
                (Err(e), _) | (_, Err(e)) => {
                    rep.machinery_error = Some(format!("replay of {file} failed: {e}"));
                    return rep;
                }
            }
            rep.unlisted.push((v.sig.clone(), file));
        }
        rep.scen.push(ScenReport { name: scen.name.clone(), stats: ex.stats.clone(), l: scen.l.len(), p: scen.p.len() });
        // the verdict is already "violated": do not spend the whole plan's time on a broken tree
        let budget = if tier == Tier::Quick { 300.0 } else { 1800.0 };
        if !rep.unlisted.is_empty() && t0.elapsed().as_secs_f64() > budget {
            println!("WARNING stopping after {} of {} scenarios: unlisted violations were found and {budget} s have passed", rep.scen.len(), pl.scenarios.len());
            break;
        }
    }
    rep.wall_s = t0.elapsed().as_secs_f64();
    rep
}
